(* _pyahocorasick.Token predicates, Token.sort, filter_overlapping and Trie.tokenize.
   The nested index loops with "del tokens[j]" / "del tokens[i]" are transcribed as a zipper:
   tokens = pre ++ [curr] ++ mid ++ rest with i = |pre| and j = |pre| + 1 + |mid|. *)
Require Import Model.Base Model.Split Model.Trie.
Open Scope Z_scope.

Section Overlap.
Context {V : Type}.
Variable O : oracle.
Notation tok := (Trie.tok V).

Definition tok_len (a : tok) : Z := tend a - tstart a + 1.
(* a.is_after(b): a.start > b.end *)
Definition is_after (a b : tok) : bool := tend b <? tstart a.
(* b in a: a.start <= b.start and b.end <= a.end *)
Definition tcontains (a b : tok) : bool := (tstart a <=? tstart b) && (tend b <=? tend a).
(* a.overlap(b) *)
Definition overlap (a b : tok) : bool :=
  ((tstart a <=? tstart b) && (tstart b <=? tend a)) || ((tstart a <=? tend b) && (tend b <=? tend a)).

(* Token.sort: sorted(tokens, key=(start, -len)), stable *)
Definition key_ltb (a b : tok) : bool :=
  (tstart a <? tstart b) || ((tstart a =? tstart b) && (tok_len b <? tok_len a)).
Fixpoint insert_tok (x : tok) (l : list tok) : list tok :=
  match l with
  | [] => [x]
  | y :: l' => if key_ltb x y then x :: l else y :: insert_tok x l'
  end.
Definition sort_tokens (l : list tok) : list tok := fold_left (fun acc x => insert_tok x acc) l [].

(* inner while loop for the current token c; returns (keep c?, mid ++ rest) *)
Fixpoint fo_inner (c : tok) (mid rest : list tok) : bool * list tok :=
  match rest with
  | [] => (true, mid)
  | n :: rest' =>
      if is_after n c then (true, mid ++ rest)
      else if tcontains c n then fo_inner c mid rest'
      else if overlap c n then
             if tok_len n <=? tok_len c then fo_inner c mid rest' else (false, mid ++ rest)
      else fo_inner c (mid ++ [n]) rest'
  end.

Fixpoint fo_outer (fuel : nat) (toks : list tok) : list tok :=
  match fuel with
  | 0%nat => toks
  | S f =>
    match toks with
    | [] => []
    | [c] => [c]
    | c :: rest =>
        let (keep, rem) := fo_inner c [] rest in
        if keep then c :: fo_outer f rem else fo_outer f rem
    end
  end.

Definition filter_overlapping (l : list tok) : list tok :=
  let s := sort_tokens l in fo_outer (S (length s)) s.

(* second half of Trie.tokenize: walk the parts of the text; a part covered by a kept match is
   skipped (the match is emitted at its first part); other non-blank parts are unmatched tokens *)
Fixpoint drop_ended (m : list tok) (start : Z) : list tok :=
  match m with
  | t :: m' => if tend t <? start then drop_ended m' start else m
  | [] => []
  end.

Fixpoint retok (ps : list piece) (m : list tok) : list tok :=
  match ps with
  | [] => []
  | p :: ps' =>
      let m' := drop_ended m (pstart p) in
      match m' with
      | t :: _ =>
          if tstart t <=? pstart p
          then (if tstart t =? pstart p then t :: retok ps' m' else retok ps' m')
          else if is_word_piece O p
               then {| tstart := pstart p; tend := pend p; tstring := ptext p; tvalue := None |} :: retok ps' m'
               else retok ps' m'
      | [] =>
          if is_word_piece O p
          then {| tstart := pstart p; tend := pend p; tstring := ptext p; tvalue := None |} :: retok ps' m'
          else retok ps' m'
      end
  end.

(* Trie.tokenize(text) with the defaults include_unmatched=True, include_space=False *)
Definition t_tokenize (t : trie V) (text : str) : list tok :=
  retok (pieces O text) (filter_overlapping (t_iter O t text)).

End Overlap.
