(* License symbols and expressions as data; literals, evaluation, rendering.
   Transcribes: LicenseSymbol / LicenseWithExceptionSymbol as values, boolean.py Expression.get_literals,
   RenderableFunction.render, LicenseWithExceptionSymbol.render, Function.__str__. *)
Require Import Model.Base.

Record sym := { key : str; exc : bool }.
Inductive atom := Plain (s : sym) | With (l r : sym).
Inductive expr := Lit (a : atom) | And (xs : list expr) | Or (xs : list expr).

(* induction principle for the nested inductive *)
Section Ind.
  Variable Q : expr -> Prop.
  Hypothesis HL : forall a, Q (Lit a).
  Hypothesis HA : forall xs, Forall Q xs -> Q (And xs).
  Hypothesis HO : forall xs, Forall Q xs -> Q (Or xs).
  Fixpoint expr_ind' (e : expr) : Q e :=
    match e with
    | Lit a => HL a
    | And xs => HA xs ((fix go (l : list expr) : Forall Q l :=
                          match l with [] => Forall_nil _ | x :: l' => Forall_cons _ (expr_ind' x) (go l') end) xs)
    | Or xs => HO xs ((fix go (l : list expr) : Forall Q l :=
                          match l with [] => Forall_nil _ | x :: l' => Forall_cons _ (expr_ind' x) (go l') end) xs)
    end.
End Ind.

Definition sym_eqb (a b : sym) : bool := str_eqb (key a) (key b) && Bool.eqb (exc a) (exc b).

(* LicenseSymbol.__eq__ / LicenseWithExceptionSymbol.__eq__ *)
Definition atom_eqb (a b : atom) : bool :=
  match a, b with
  | Plain x, Plain y => sym_eqb x y
  | With l r, With l' r' => sym_eqb l l' && sym_eqb r r'
  | _, _ => false
  end.

(* the tuple that __hash__ hashes *)
Inductive hinput := HPlain (k : str) (e : bool) | HWith (a b : hinput).
Definition sym_hash_input (s : sym) : hinput := HPlain (key s) (exc s).
Definition atom_hash_input (a : atom) : hinput :=
  match a with
  | Plain s => sym_hash_input s
  | With l r => HWith (sym_hash_input l) (sym_hash_input r)
  end.

Definition s_WITH_sp : str := ([32] ++ S_WITH ++ [32])%N.
Definition s_AND_sp : str := ([32] ++ S_AND ++ [32])%N.
Definition s_OR_sp : str := ([32] ++ S_OR ++ [32])%N.

(* __str__ of a symbol *)
Definition atom_str (a : atom) : str :=
  match a with
  | Plain s => key s
  | With l r => key l ++ s_WITH_sp ++ key r
  end.

(* decompose() *)
Definition decompose (a : atom) : list sym :=
  match a with Plain s => [s] | With l r => [l; r] end.

(* Expression.get_literals *)
Fixpoint literals (e : expr) : list atom :=
  match e with
  | Lit a => [a]
  | And xs => flat_map literals xs
  | Or xs => flat_map literals xs
  end.

Fixpoint eval (v : atom -> bool) (e : expr) : bool :=
  match e with
  | Lit a => v a
  | And xs => forallb (eval v) xs
  | Or xs => existsb (eval v) xs
  end.

Definition is_lit (e : expr) : bool := match e with Lit _ => true | _ => false end.
Definition paren (s : str) : str := (c_lpar :: s) ++ [c_rpar].

(* render(template, wrap_with_in_parens); [f] is the template applied to one license symbol *)
Definition render_atom (f : sym -> str) (wrap : bool) (a : atom) : str :=
  match a with
  | Plain s => f s
  | With l r => let r := f l ++ s_WITH_sp ++ f r in if wrap then paren r else r
  end.

Fixpoint render_with (f : sym -> str) (wrap : bool) (e : expr) : str :=
  match e with
  | Lit a => render_atom f wrap a
  | And xs => join s_AND_sp (map (fun x => let r := render_with f wrap x in if is_lit x then r else paren r) xs)
  | Or xs => join s_OR_sp (map (fun x => let r := render_with f wrap x in if is_lit x then r else paren r) xs)
  end.

Definition render (e : expr) : str := render_with key false e.
(* Renderable.render_as_readable: a top-level WITH symbol is not wrapped *)
Definition render_readable (e : expr) : str :=
  match e with
  | Lit a => render_atom key false a
  | _ => render_with key true e
  end.

(* every And / Or has two or more operands (what the constructors of the code enforce) *)
Fixpoint wf (e : expr) : bool :=
  match e with
  | Lit _ => true
  | And xs => Nat.leb 2 (length xs) && forallb wf xs
  | Or xs => Nat.leb 2 (length xs) && forallb wf xs
  end.

(* AND(args...) / OR(args...) of license_expression: ExpressionError below two operands *)
Definition mk_and (xs : list expr) : outcome expr :=
  if Nat.leb 2 (length xs) then Ok (And xs) else ExprErr EArity.
Definition mk_or (xs : list expr) : outcome expr :=
  if Nat.leb 2 (length xs) then Ok (Or xs) else ExprErr EArity.

Fixpoint size (e : expr) : nat :=
  match e with
  | Lit _ => 1
  | And xs => S (list_sum (map size xs))
  | Or xs => S (list_sum (map size xs))
  end.
