(* boolean.py BooleanAlgebra.parse / _start_operation, fed through license_expression's
   check_tokens_sequence, as a stack machine. The Python "ast" [parent, op, arg...] nested list is
   the stack of frames (op, args), innermost first; the bottom frame is [None, None, ...]. *)
Require Import Model.Base Model.Expr Model.LicTok.
Open Scope nat_scope.

Inductive fop := FNone | FAnd | FOr | FLpar.
Definition frame := (fop * list expr)%type.
Definition prec (o : fop) : nat := match o with FAnd => 10 | FOr => 15 | FLpar => 20 | FNone => 0 end.

(* ast[1](args...) : AND / OR of license_expression refuse fewer than two operands *)
Definition mkf (o : fop) (a : list expr) : option expr :=
  match o with
  | FAnd => if Nat.ltb (length a) 2 then None else Some (And a)
  | FOr => if Nat.ltb (length a) 2 then None else Some (Or a)
  | _ => None
  end.
Arguments mkf : simpl never.

Inductive pres := POk (e : expr) | PErr (code : N) (tok : str) (pos : Z) | PArity | PLeak (e : pyexc).
Inductive sres := SOk (s : list frame) | SErr (r : pres).

Definition no_tok : str := [].
Definition no_pos : Z := (-1)%Z.

(* _start_operation *)
Fixpoint start_op (fuel : nat) (s : list frame) (o : fop) : sres :=
  match fuel with 0 => SErr (PLeak OtherExc) | S fuel =>
  match s with
  | [] => SErr (PLeak OtherExc)
  | (FNone, a) :: rest => SOk ((o, a) :: rest)
  | (co, a) :: rest =>
     if Nat.ltb (prec o) (prec co) then
       match rev a with
       | [] => SErr (PLeak IndexError)
       | x :: ra => SOk ((o, [x]) :: (co, rev ra) :: rest)
       end
     else if Nat.eqb (prec o) (prec co) then SOk s
     else match rest with
          | [] => match mkf co a with Some e => SOk [(o, [e])] | None => SErr PArity end
          | (po, pa) :: rest' =>
              match mkf co a with
              | Some e => start_op fuel ((po, pa ++ [e]) :: rest') o
              | None => SErr PArity
              end
          end
  end end.

(* TOKEN_RPAR: close frames up to the innermost "(" *)
Fixpoint close_par (fuel : nat) (s : list frame) (ts : str) (tp : Z) : sres :=
  match fuel with 0 => SErr (PLeak OtherExc) | S fuel =>
  match s with
  | [] => SErr (PLeak OtherExc)
  | [_] => SErr (PErr PARSE_UNBALANCED_CLOSING_PARENS ts tp)
  | (FLpar, a) :: (po, pa) :: rest =>
      match a with
      | [] => SErr (PLeak IndexError)
      | x :: _ => SOk ((po, pa ++ [x]) :: rest)
      end
  | (FNone, _) :: _ => SErr (PErr PARSE_INVALID_NESTING ts tp)
  | (co, a) :: (po, pa) :: rest =>
      match mkf co a with
      | Some e => close_par fuel ((po, pa ++ [e]) :: rest) ts tp
      | None => SErr PArity
      end
  end end.

Definition is_symt (t : tk) : bool := match t with TS _ => true | _ => false end.
Definition is_opt (t : tk) : bool := match t with TA | TO => true | _ => false end.
Definition is_trt (t : tk) : bool := match t with TR => true | _ => false end.
Definition is_tlt (t : tk) : bool := match t with TL => true | _ => false end.

(* the adjacency checks, in the order in which they are reached for one token:
   check_tokens_sequence first, then boolean.py's own *)
Definition check (prev : option tk) (t : tk) : option N :=
  match prev with
  | Some p =>
      if is_tlt p && (is_opt t || is_trt t) then Some PARSE_INVALID_NESTING
      else if is_trt p && is_symt t then Some PARSE_INVALID_SYMBOL_SEQUENCE
      else if is_symt p && is_symt t then Some PARSE_INVALID_SYMBOL_SEQUENCE
      else if is_opt p && (is_opt t || is_trt t) then Some PARSE_INVALID_OPERATOR_SEQUENCE
      else None
  | None => if is_opt t then Some PARSE_INVALID_OPERATOR_SEQUENCE else None
  end.

Definition step1 (s : list frame) (prev : option tk) (t : ptok) : sres :=
  match check prev (pt t) with
  | Some c => SErr (PErr c (pstr t) (ppos t))
  | None =>
    let fuel := S (length s) in
    match pt t with
    | TS a => match s with (o, args) :: rest => SOk ((o, args ++ [Lit a]) :: rest) | [] => SErr (PLeak OtherExc) end
    | TA => start_op fuel s FAnd
    | TO => start_op fuel s FOr
    | TL => match prev with
            | Some (TS _) | Some TR => SErr (PErr PARSE_INVALID_NESTING (pstr t) (ppos t))
            | _ => SOk ((FLpar, []) :: s)
            end
    | TR => close_par fuel s (pstr t) (ppos t)
    end
  end.

Inductive rres := ROk (s : list frame) (prev : option tk) | RErr (r : pres).
Fixpoint run (s : list frame) (prev : option tk) (ts : list ptok) : rres :=
  match ts with
  | [] => ROk s prev
  | t :: ts' => match step1 s prev t with SErr e => RErr e | SOk s' => run s' (Some (pt t)) ts' end
  end.

(* after the last token: close every open frame *)
Fixpoint finish (fuel : nat) (s : list frame) : pres :=
  match fuel with 0 => PLeak OtherExc | S fuel =>
  match s with
  | [] => PLeak OtherExc
  | [(FNone, a)] => match a with [x] => POk x | _ => PErr PARSE_INVALID_EXPRESSION no_tok no_pos end
  | [(co, a)] => match co with
                 | FLpar => PErr PARSE_INVALID_EXPRESSION no_tok no_pos
                 | _ => match mkf co a with Some e => POk e | None => PArity end
                 end
  | (FLpar, _) :: _ => PErr PARSE_INVALID_EXPRESSION no_tok no_pos
  | (co, a) :: (po, pa) :: rest =>
      match mkf co a with
      | Some e => finish fuel ((po, pa ++ [e]) :: rest)
      | None => PArity
      end
  end end.

Definition bparse (ts : list ptok) : pres :=
  match run [(FNone, [])] None ts with
  | RErr e => e
  | ROk s _ => finish (S (length s)) s
  end.
