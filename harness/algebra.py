"""Shared helpers for the algebraic properties (C06 C07 C08 C09): truth tables over encoded trees,
enumeration of small trees, rewrite steps."""
import itertools

from core import enc_str


def atom_id(a):
    """Hashable identity of an encoded atom."""
    if a[0] == 0:
        return ('P', tuple(a[1][0]), a[1][1])
    return ('W', tuple(a[1][0]), a[1][1], tuple(a[2][0]), a[2][1])


def atoms_of(d):
    if d[0] == 0:
        return [atom_id(d[1])]
    out = []
    for x in d[1]:
        out.extend(atoms_of(x))
    return out


def eval_tree(d, env):
    if d[0] == 0:
        return env[atom_id(d[1])]
    if d[0] == 1:
        return all(eval_tree(x, env) for x in d[1])
    return any(eval_tree(x, env) for x in d[1])


def truth_table(d, atoms):
    """Tuple of values of d over all assignments of the given atom list."""
    out = []
    for bits in itertools.product((False, True), repeat=len(atoms)):
        env = dict(zip(atoms, bits))
        out.append(eval_tree(d, env))
    return tuple(out)


def same_truth(d1, d2, maxatoms=10):
    atoms = sorted(set(atoms_of(d1)) | set(atoms_of(d2)))
    if len(atoms) > maxatoms:
        return None
    return truth_table(d1, atoms) == truth_table(d2, atoms)


def small_atoms(n):
    base = [
        [0, [enc_str('a'), 0]],
        [0, [enc_str('b'), 0]],
        [0, [enc_str('a'), 1]],
        [1, [enc_str('a'), 0], [enc_str('b'), 0]],
        [0, [enc_str('A'), 0]],
    ]
    return base[:n]


def enum_trees(natoms, maxar, depth):
    """All trees of the given depth bound: operands of a node are trees of smaller depth."""
    lits = [[0, a] for a in small_atoms(natoms)]
    level = list(lits)
    for _ in range(depth):
        new = list(lits)
        for tag in (1, 2):
            for ar in range(2, maxar + 1):
                for combo in itertools.product(level, repeat=ar):
                    new.append([tag, list(combo)])
        level = new
    return level


# ---------------------------------------------------------------- rewrites (C07 / C08)

def nodes_paths(d, path=()):
    yield path
    if d[0] != 0:
        for i, x in enumerate(d[1]):
            for p in nodes_paths(x, path + (i,)):
                yield p


def get_at(d, path):
    for i in path:
        d = d[1][i]
    return d


def set_at(d, path, new):
    if not path:
        return new
    i = path[0]
    return [d[0], d[1][:i] + [set_at(d[1][i], path[1:], new)] + d[1][i + 1:]]


def rewrite_once(rng, d, gen_leaf):
    """One rewrite step at a random node: commutativity, associativity (group / ungroup), repetition,
    single-license absorption. Returns (kind, new tree) or None when no step applies."""
    paths = [p for p in nodes_paths(d) if get_at(d, p)[0] != 0]
    if not paths:
        return None
    p = rng.choice(paths)
    node = get_at(d, p)
    tag, args = node[0], list(node[1])
    kind = rng.choice(['comm', 'group', 'repeat', 'absorb', 'ungroup'])
    if kind == 'comm':
        rng.shuffle(args)
        new = [tag, args]
    elif kind == 'group':
        if len(args) < 3:
            return None
        i = rng.randrange(0, len(args) - 1)
        j = rng.randrange(i + 2, len(args) + 1)
        if j - i == len(args):
            return None
        new = [tag, args[:i] + [[tag, args[i:j]]] + args[j:]]
    elif kind == 'ungroup':
        idx = [i for i, x in enumerate(args) if x[0] == tag]
        if not idx:
            return None
        i = rng.choice(idx)
        new = [tag, args[:i] + args[i][1] + args[i + 1:]]
    elif kind == 'repeat':
        i = rng.randrange(len(args))
        j = rng.randrange(len(args) + 1)
        new = [tag, args[:j] + [args[i]] + args[j:]]
    else:
        lits = [x for x in args if x[0] == 0]
        if not lits:
            return None
        a = rng.choice(lits)
        b = gen_leaf()
        dualtag = 2 if tag == 1 else 1
        extra = [dualtag, [a, b] if rng.random() < 0.5 else [b, a]]
        j = rng.randrange(len(args) + 1)
        new = [tag, args[:j] + [extra] + args[j:]]
    return kind, set_at(d, p, new)
