"""
Core of the correspondence harness: s-expression codec shared with the extracted model,
the oracle table dump, the model runner, canonical encodings of implementation values.

Runs under /venv/bin/python with PYTHONPATH=/repo/src (set by ./check).
"""
import hashlib
import json
import os
import re
import subprocess
import sys
import time

VERIF = os.path.dirname(os.path.dirname(os.path.abspath(__file__)))
BUILD = os.path.join(VERIF, 'build')
DRIVER = os.path.join(BUILD, 'driver')
ORACLE_TBL = os.path.join(BUILD, 'oracle.tbl')

sys.setrecursionlimit(10000)

# ---------------------------------------------------------------- s-expressions

def to_sexpr(d):
    if isinstance(d, bool):
        return '1' if d else '0'
    if isinstance(d, int):
        return str(d)
    return '(' + ' '.join(to_sexpr(x) for x in d) + ')'


_tok = re.compile(r'\(|\)|-?\d+')


def from_sexpr(s):
    stack = [[]]
    for m in _tok.finditer(s):
        t = m.group()
        if t == '(':
            stack.append([])
        elif t == ')':
            l = stack.pop()
            stack[-1].append(l)
        else:
            stack[-1].append(int(t))
    assert len(stack) == 1 and len(stack[0]) == 1, s[:200]
    return stack[0][0]


def enc_str(s):
    return [ord(c) for c in s]


def dec_str(l):
    return ''.join(chr(c) for c in l)


def enc_opt(x, f=lambda v: v):
    return [] if x is None else [f(x)]


# ---------------------------------------------------------------- oracle tables

def python_tables():
    """The Unicode tables of the running interpreter, as the model's oracle."""
    spaces, lowers, words = [], [], []
    ws = re.compile(r'\s')
    wd = re.compile(r'\w')
    run = None
    for cp in range(0x110000):
        if 0xD800 <= cp <= 0xDFFF:
            continue
        c = chr(cp)
        sp = c.isspace()
        assert sp == bool(ws.match(c)), cp
        if sp:
            spaces.append(cp)
        lo = c.lower()
        if lo != c:
            lowers.append((cp, [ord(x) for x in lo]))
        if wd.match(c):
            if run and run[1] == cp - 1:
                run[1] = cp
            else:
                run = [cp, cp]
                words.append(run)
    return spaces, lowers, words


def oracle_facts(spaces, lowers, words):
    """
    The facts about the interpreter's tables that the model and its theorems assume.
    Returns a list of (name, ok) pairs.
    """
    sp = set(spaces)
    low = dict(lowers)
    facts = []
    facts.append(('parens_not_space', 40 not in sp and 41 not in sp))
    facts.append(('ascii_space_is_space', 32 in sp))
    # lowering never changes the class (space / paren / text) of a character
    ok = True
    for cp, lo in low.items():
        src = 'S' if cp in sp else 'P' if cp in (40, 41) else 'T'
        for x in lo:
            dst = 'S' if x in sp else 'P' if x in (40, 41) else 'T'
            if dst != src:
                ok = False
    facts.append(('lower_preserves_class', ok))
    facts.append(('keywords_lower_fixed', all(ord(c) not in low for c in 'andorwith()')))
    # premises of the C18 theorem: the keyword characters are not white space; lower-casing a character that is not a
    # parenthesis never produces a parenthesis
    facts.append(('keyword_chars_not_space', all(ord(c) not in sp for c in 'andorwith()')))
    # premises of the C05 round-trip theorem: the letters of AND OR WITH are not white space and lower-case to and or with
    facts.append(('operator_letters_not_space', all(ord(c) not in sp for c in 'ANDORWITH()')))
    facts.append(('operators_lower_to_keywords', all(list(low.get(ord(c), [ord(c)])) == [ord(c) + 32] for c in 'ANDORWITH')
                  and ('AND'.lower(), 'OR'.lower(), 'WITH'.lower(), '('.lower(), ')'.lower()) == ('and', 'or', 'with', '(', ')')))
    facts.append(('lower_never_makes_paren', all(40 not in lo and 41 not in lo for cp, lo in low.items())))
    # premises of the C05 theorem over accepted tables: lower-casing leaves white space as it is, and gives at least one
    # character (that it never makes white space out of something else is lower_preserves_class)
    facts.append(('spaces_lower_fixed', all(cp not in low for cp in sp)))
    facts.append(('lower_never_empty', all(len(lo) >= 1 for lo in low.values())))
    # '-', ':', '.', '+' are not word characters or spaces; letters, digits, '_' are word characters
    def isw(c):
        return any(a <= c <= b for a, b in words)
    facts.append(('key_punct', all(not isw(ord(c)) and ord(c) not in sp for c in '-:.+(),')))
    facts.append(('ascii_word', all(isw(ord(c)) for c in 'azAZ09_')))
    return facts


def ensure_oracle_table():
    tag = '%s\n' % (sys.version,)
    if os.path.exists(ORACLE_TBL):
        with open(ORACLE_TBL) as f:
            first = f.readline()
        if first == '# ' + tag:
            return
    spaces, lowers, words = python_tables()
    facts = oracle_facts(spaces, lowers, words)
    bad = [n for n, ok in facts if not ok]
    if bad:
        raise SystemExit('oracle facts do not hold for this interpreter: %r' % bad)
    os.makedirs(BUILD, exist_ok=True)
    tmp = ORACLE_TBL + '.tmp%d' % os.getpid()
    with open(tmp, 'w') as f:
        f.write('# ' + tag)
        for c in spaces:
            f.write('S %d\n' % c)
        for a, b in words:
            f.write('W %d %d\n' % (a, b))
        for c, lo in lowers:
            f.write('L %d %s\n' % (c, ' '.join(map(str, lo))))
    os.replace(tmp, ORACLE_TBL)


_low_cache = {}


def lower_table_ok(s):
    """True if the per-character lower table reproduces str.lower() on this text."""
    return ''.join(c.lower() for c in s) == s.lower()


# ---------------------------------------------------------------- model runner

def run_model(requests, chunk=20000):
    """
    requests: list of (op, data). Returns the list of decoded results, in order.
    """
    ensure_oracle_table()
    out = []
    for i in range(0, len(requests), chunk):
        part = requests[i:i + chunk]
        inp = '\n'.join('%d %s' % (op, to_sexpr(d)) for op, d in part) + '\n'
        p = subprocess.run([DRIVER, ORACLE_TBL], input=inp.encode(), stdout=subprocess.PIPE,
                           stderr=subprocess.PIPE, timeout=3600)
        if p.returncode != 0:
            raise RuntimeError('model driver failed: %s' % p.stderr.decode()[:2000])
        lines = p.stdout.decode().split('\n')
        if lines and lines[-1] == '':
            lines.pop()
        if len(lines) != len(part):
            raise RuntimeError('model driver returned %d lines for %d requests' % (len(lines), len(part)))
        out.extend(from_sexpr(l) for l in lines)
    return out


# ---------------------------------------------------------------- implementation values

def imp():
    import license_expression
    return license_expression


def enc_sym(s):
    return [enc_str(s.key), 1 if s.is_exception else 0]


def enc_atom(a):
    le = imp()
    if isinstance(a, le.LicenseWithExceptionSymbol):
        return [1, enc_sym(a.license_symbol), enc_sym(a.exception_symbol)]
    return [0, enc_sym(a)]


def enc_expr(e):
    le = imp()
    if isinstance(e, le.BaseSymbol):
        return [0, enc_atom(e)]
    if isinstance(e, le.AND):
        return [1, [enc_expr(x) for x in e.args]]
    if isinstance(e, le.OR):
        return [2, [enc_expr(x) for x in e.args]]
    raise TypeError('not a license expression node: %r' % (e,))


class UserRecord(object):
    """A user object with a key and an exception flag, as a table of objects holds them."""
    def __init__(self, key, is_exception=False, aliases=None):
        self.key = key
        self.is_exception = is_exception
        if aliases is not None:
            self.aliases = aliases


_USER_SYMBOL = []


def user_symbol_class():
    le = imp()
    if not _USER_SYMBOL:
        class NamedLicense(le.LicenseSymbol):
            """What a user of the library writes to carry more data on a license."""
            def __init__(self, key, aliases=tuple(), is_exception=False, name=None, *args, **kwargs):
                super().__init__(key, aliases, is_exception, *args, **kwargs)
                self.name = name or key
        _USER_SYMBOL.append(NamedLicense)
    return _USER_SYMBOL[0]


def build_expr(d, licensing=None, like=False, _rng=None):
    """Build implementation objects from the encoded tree (no parsing involved). With like=True every license is a
    LicenseSymbolLike wrapping a user object, as an expression parsed over a table of objects has them; with like=<int> each
    license occurrence is a plain symbol or a wrapped object, with or without aliases, by a seeded choice (expressions
    combined from Licensings with different tables)."""
    le = imp()
    if _rng is None and like is not True and like is not False:
        import random as _random
        _rng = _random.Random(like)

    def mk(k, ex):
        wrapped = like is True or (_rng is not None and _rng.random() < 0.5)
        # in a mixture, occurrences of one license come from tables that list other aliases for it (a tuple, or a list on
        # a user object): the aliases take no part in what a symbol is
        als = None
        if _rng is not None and _rng.random() < 0.5:
            als = _rng.choice([(k + ' license',), ('the ' + k, k + ' 2'), ()])
        if wrapped:
            return le.LicenseSymbolLike(UserRecord(k, ex, None if als is None else (list(als) if _rng.random() < 0.5 else als)))
        # a table may hold instances of a user's subclass of LicenseSymbol: they are the same licenses as plain symbols
        cls = user_symbol_class() if (_rng is not None and _rng.random() < 0.3) else le.LicenseSymbol
        return cls(k, is_exception=ex) if als is None else cls(k, aliases=als, is_exception=ex)
    tag = d[0]
    if tag == 0:
        a = d[1]
        if a[0] == 0:
            return mk(dec_str(a[1][0]), bool(a[1][1]))
        l = mk(dec_str(a[1][0]), bool(a[1][1]))
        r = mk(dec_str(a[2][0]), bool(a[2][1]))
        return le.LicenseWithExceptionSymbol(l, r)
    args = [build_expr(x, like=like, _rng=_rng) for x in d[1]]
    return (le.AND if tag == 1 else le.OR)(*args)


REPRESENTATIONS = (True, 1, 2)    # all wrapped, two seeded mixtures of plain symbols and wrapped user objects


def enc_table(T):
    """T: list of (key, aliases, is_exception)."""
    return [[enc_str(k), [enc_str(a) for a in als], 1 if ex else 0] for k, als, ex in T]


def make_licensing(T, form=None):
    """Build a real Licensing from (key, aliases, flag) entries in one of three representations. Without an explicit form the
    table itself decides (a checksum of its text, so that a replay builds the same kind of object): one table in three is
    handed over as plain user objects, which the library wraps in LicenseSymbolLike."""
    le = imp()
    if form is None:
        import zlib
        form = 'obj' if zlib.crc32(repr([(k, list(a), bool(e)) for k, a, e in T]).encode('utf-8')) % 3 == 0 else 'sym'
    if form == 'str':
        return le.Licensing([k for k, _, _ in T])
    if form == 'sym':
        return le.Licensing([le.LicenseSymbol(k, aliases=tuple(als), is_exception=ex) for k, als, ex in T])
    if form == 'loose':
        # the flags as other values of the same truth: what an index without the field, a database row or a caller's 0 / 1 give
        falsy, truthy = ('', None, 0), (1, 'yes')
        return le.Licensing([le.LicenseSymbol(k, aliases=tuple(als), is_exception=(truthy[i % 2] if ex else falsy[i % 3]))
                             for i, (k, als, ex) in enumerate(T)])
    if form == 'obj':
        class Obj(object):
            def __init__(self, key, aliases, is_exception):
                self.key = key
                self.aliases = aliases
                self.is_exception = is_exception
        return le.Licensing([Obj(k, tuple(als), ex) for k, als, ex in T])
    raise ValueError(form)


LEAK = [5]


def enc_exception(e):
    """Canonical outcome of a raised exception."""
    le = imp()
    if isinstance(e, le.ExpressionParseError) or isinstance(e, le.ParseError):
        ts = e.token_string
        return [1, e.error_code, enc_str(ts if isinstance(ts, str) else ''), e.position]
    if isinstance(e, le.ExpressionError):
        msg = str(e)
        if msg.startswith('AND requires') or msg.startswith('OR requires'):
            return [2, [0]]
        if msg.startswith('Unknown license key(s): '):
            return [2, [2, None]]   # keys filled by the caller when needed
        if msg.startswith('A license key') or msg.startswith('Invalid license key'):
            return [2, [1]]
        if msg.startswith('expression must be a string'):
            return [2, [3]]
        return [2, [4]]
    if isinstance(e, ValueError):
        return [3]
    if isinstance(e, TypeError):
        return [4]
    return LEAK


def outcome_of(fn, enc=lambda x: x):
    try:
        r = fn()
    except RecursionError:
        raise
    except Exception as e:   # noqa
        return enc_exception(e)
    return [0, enc(r)]


# ---------------------------------------------------------------- evidence / reporting

class Report(object):
    def __init__(self, prop, tier, seed):
        self.prop = prop
        self.tier = tier
        self.seed = seed
        self.t0 = time.time()
        self.evaluations = 0
        self.nontrivial = set()
        self.samples = []
        self.violations = []     # (what, replay dict)
        self.known = []
        self.distribution = {}
        self.notes = []
        self.trail = None         # payloads of the cases run so far (modules whose cases share process state set it to [])

    def count(self, key, n=1):
        self.distribution[key] = self.distribution.get(key, 0) + n

    def case(self, case_id, nontrivial=True, sample=None):
        self.evaluations += 1
        if nontrivial:
            self.nontrivial.add(hashlib.sha1(repr(case_id).encode()).digest()[:8])
        if sample is not None and len(self.samples) < 6:
            self.samples.append(sample)
