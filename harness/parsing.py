"""
Shared helpers for the parsing properties: canonical outcome of Licensing.parse, an independent
reference parser over token kinds (the grammar of C02 / C03), the role rule of C12.
"""
from core import imp, enc_expr, enc_opt, enc_str, outcome_of, dec_str
import gen


def parse_outcome(L, s, validate=False, strict=False, simple=False):
    return outcome_of(lambda: L.parse(s, validate=validate, strict=strict, simple=simple),
                      lambda e: enc_opt(e, enc_expr))


# ---------------------------------------------------------------- reference parser

class Invalid(Exception):
    pass


def ref_parse(toks):
    """
    toks: list of ('sym', atom-encoding) | 'and' | 'or' | 'with' | '(' | ')'
    Returns the encoded tree. Raises Invalid.
    WITH binds tightest (SYM WITH SYM, greedy left to right), AND tighter than OR, n-ary nodes,
    parenthesised compounds nested, parentheses around one license vanish.
    """
    # WITH grouping
    out = []
    i = 0
    n = len(toks)
    while i < n:
        t = toks[i]
        if (isinstance(t, tuple) and i + 2 < n and toks[i + 1] == 'with' and isinstance(toks[i + 2], tuple)):
            out.append(('atom', [1, t[1], toks[i + 2][1]]))
            i += 3
        elif t == 'with':
            raise Invalid('WITH not between two licenses')
        elif isinstance(t, tuple):
            out.append(('atom', [0, t[1]]))
            i += 1
        else:
            out.append(t)
            i += 1
    pos = [0]

    def peek():
        return out[pos[0]] if pos[0] < len(out) else None

    def prim():
        t = peek()
        if t is None:
            raise Invalid('operand expected at end')
        if isinstance(t, tuple):
            pos[0] += 1
            return [0, t[1]]
        if t == '(':
            pos[0] += 1
            e = orexp()
            if peek() != ')':
                raise Invalid('unbalanced parentheses')
            pos[0] += 1
            return e
        raise Invalid('operand expected')

    def andexp():
        items = [prim()]
        while peek() == 'and':
            pos[0] += 1
            items.append(prim())
        return items[0] if len(items) == 1 else [1, items]

    def orexp():
        items = [andexp()]
        while peek() == 'or':
            pos[0] += 1
            items.append(andexp())
        return items[0] if len(items) == 1 else [2, items]

    if not out:
        raise Invalid('empty')
    e = orexp()
    if pos[0] != len(out):
        raise Invalid('trailing tokens')
    return e


def ref_classify(toks):
    """('valid', tree) | ('dangling', None) | ('invalid', reason)"""
    try:
        return ('valid', ref_parse(toks))
    except Invalid as ex:
        if toks and toks[-1] in ('and', 'or'):
            try:
                ref_parse(toks[:-1])
                return ('dangling', None)
            except Invalid:
                pass
        return ('invalid', str(ex))


# ---------------------------------------------------------------- token strings over the fixed table

def token_kinds_to_ref(t, simple=False):
    """
    Map a tuple over gen.TOKEN_ALPHABET to reference tokens. With the default tokenizer adjacent
    unknown words form one unknown license; with the simple tokenizer every word is a symbol.
    """
    out = []
    for x in t:
        if x == 'k':
            out.append(('sym', [enc_str('mit'), 0]))
        elif x == 'e':
            out.append(('sym', [enc_str('cpe'), 1]))
        elif x == 'u':
            if (not simple and out and isinstance(out[-1], tuple) and out[-1][0] == 'sym'
                    and out[-1][1][0][:2] == enc_str('zz')):
                out[-1] = ('sym', [out[-1][1][0] + enc_str(' zz'), 0])
            else:
                out.append(('sym', [enc_str('zz'), 0]))
        else:
            out.append(x)
    return out


def roles_ok(reftoks):
    """C12: every WITH has a non-exception on its left and an exception on its right, and no
    exception stands outside the right side of a WITH."""
    i = 0
    n = len(reftoks)
    while i < n:
        t = reftoks[i]
        if isinstance(t, tuple):
            if i + 2 < n and reftoks[i + 1] == 'with' and isinstance(reftoks[i + 2], tuple):
                if t[1][1] or not reftoks[i + 2][1][1]:
                    return False
                i += 3
                continue
            if t[1][1]:
                return False
        i += 1
    return True


def strip_flags(tree):
    if tree[0] == 0:
        a = tree[1]
        if a[0] == 0:
            return [0, [0, [a[1][0], 0]]]
        return [0, [1, [a[1][0], 0], [a[2][0], 0]]]
    return [tree[0], [strip_flags(x) for x in tree[1]]]


def position_error(s, outcome):
    """C03: when a parse error carries a token string and a position, the words of the token string
    occur in the input starting exactly at that position. Returns error text or None."""
    if outcome[0] != 1:
        return None
    code, tok, pos = outcome[1], dec_str(outcome[2]), outcome[3]
    if not tok or pos is None or pos < 0:
        return None
    if pos > len(s):
        return 'error position %d beyond the input' % pos
    if pos > 0 and not (s[pos - 1].isspace() or s[pos - 1] in '()' or s[pos] in '()'):
        return 'error position %d is not the start of a word' % pos
    if pos < len(s) and s[pos].isspace():
        return 'error position %d is white space: the token %r starts later' % (pos, tok)
    have = gen.lw(s[pos:])
    want = gen.lw(tok)
    if have[:len(want)] != want:
        return 'token string %r does not occur at position %d' % (tok, pos)
    return None


# ---------------------------------------------------------------- grammar-generated expressions over a table

def gen_expression(rng, T, depth=3, unknown_ratio=0.3, unknown_words=None, case_unknown=False):
    """
    Returns (text, expected encoded tree, ok) where ok is False when a known name occurs across an
    operand boundary or inside an unknown operand (the "part of a known name" proviso): such cases
    are skipped by the callers.
    """
    names = gen.names_of(T)
    surface = gen.gen_surface(rng, depth)
    parts = []        # (text, kind) kind: 'op' | 'par' | ('known', i) | 'unknown'

    def operand():
        if names and rng.random() > unknown_ratio:
            name, i = rng.choice(names)
            k, _, ex = T[i]
            return gen.vary_name(rng, name), ('known', i), [enc_str(k), 1 if ex else 0]
        ws = [rng.choice(unknown_words or gen.UNKNOWN_WORDS) for _ in range(rng.choice([1, 1, 2, 3]))]
        if case_unknown:
            # the same unknown words come back in other letter cases within one expression: each occurrence keeps its own spelling
            ws = [gen.vary_case(rng, w) for w in ws]
        text = ws[0]
        for w in ws[1:]:
            text += gen.gen_ws(rng, 1, 2) + w
        return text, 'unknown', [enc_str(' '.join(ws)), 0]

    def emit(node):
        tag = node[0]
        if tag == 'sym':
            text, kind, sym = operand()
            parts.append((text, kind))
            return [0, [0, sym]]
        if tag == 'with':
            t1, k1, s1 = operand()
            t2, k2, s2 = operand()
            parts.append((t1, k1))
            parts.append((gen.vary_case(rng, 'with'), 'op'))
            parts.append((t2, k2))
            return [0, [1, s1, s2]]
        if tag == 'par':
            parts.append(('(', 'par'))
            t = emit(node[1])
            parts.append((')', 'par'))
            return t
        trees = []
        for j, c in enumerate(node[1]):
            if j > 0:
                parts.append((gen.vary_case(rng, tag), 'op'))
            if c[0] in ('and', 'or') and not (tag == 'or' and c[0] == 'and' and rng.random() < 0.5):
                parts.append(('(', 'par'))
                trees.append(emit(c))
                parts.append((')', 'par'))
            else:
                trees.append(emit(c))
        return [1 if tag == 'and' else 2, trees]

    tree = emit(surface)
    # layout
    text = gen.gen_ws(rng, 0, 2)
    ranges = []
    nwords = 0
    for j, (t, kind) in enumerate(parts):
        if j > 0:
            prev = parts[j - 1]
            if kind == 'par' or prev[1] == 'par':
                text += gen.gen_ws(rng, 0, 2)
            else:
                text += gen.gen_ws(rng, 1, 3)
        w = len(gen.lw(t))
        ranges.append((nwords, nwords + w, kind))
        nwords += w
        text += t
    text += gen.gen_ws(rng, 0, 2)
    ok = True
    lwords = gen.lw(text)
    for (s, e, i) in gen.occurrences(T, lwords):
        inside = [r for r in ranges if r[0] <= s and e <= r[1]]
        if not inside:
            ok = False
            break
        r = inside[0]
        if r[2] == 'unknown' or r[2] in ('op', 'par'):
            ok = False
            break
        if isinstance(r[2], tuple) and not (s == r[0] and e == r[1]) and False:
            pass
    # an operand word that is a keyword inside an unknown run would be an operator
    return text, tree, ok
