"""
Entry point of every check:  main.py <Cxx> <quick|thorough>   |   main.py --replay <file>

1. rebuild (incremental, full .vo) the Coq development, the extracted model and the driver;
   regenerate the fragments translated from /repo and re-check their tie files
2. compile Props/<Cxx>.v on its own and read the Print Assumptions output under every theorem
3. correspondence: run the implementation from /repo/src and the extracted model on the same
   inputs; evaluate the property's spec oracle directly on the implementation
4. when something broke: search for a concrete failing input, write a replay, print VIOLATION
5. write evidence/<Cxx>.json
"""
import importlib
import json
import os
import re
import subprocess
import sys
import time
import hashlib
import traceback

HERE = os.path.dirname(os.path.abspath(__file__))
VERIF = os.path.dirname(HERE)
sys.path.insert(0, HERE)

import core  # noqa

ALLOWED_AXIOMS = set()    # none: every property theorem must be closed under the global context

TRUSTED_BASE = [
    'Coq 8.16.1 kernel (coqc) including its vm_compute evaluator; native_compute is not used',
    'no axioms: Print Assumptions under every property theorem must report "Closed under the global context"',
    'oracle facts about the Unicode tables of the running Python (white space, word characters, lower) are premises of the theorems, checked on all code points when the oracle table is dumped',
    'hand-written Gallina model of license_expression and of the reachable part of boolean.py 5.0 (coq/Model/*.v); its agreement with /repo is what the correspondence check measures',
    'extraction with ExtrOcamlBasic only (bool, option, unit, list, prod, sumbool, sumor to OCaml; andb, orb, negb, fst, snd inlined; numbers stay inductive), OCaml 4.13.1, ocaml/driver.ml',
    'translators harness/tr_*.py for the generated fragments coq/gen/*.v (fail-closed) and the tie files coq/Tie/*.v',
    'the Python harness: generators, canonical encodings, spec oracles used for the violation search',
]


def sh(cmd, timeout=3600, cwd=VERIF):
    p = subprocess.run(cmd, shell=True, cwd=cwd, stdout=subprocess.PIPE, stderr=subprocess.STDOUT, timeout=timeout)
    return p.returncode, p.stdout.decode(errors='replace')


TIES = {'C15': ['Index'], 'C20': ['ThreadProg', 'Writes'], 'C19': ['Writes'], 'C17': ['Preds'], 'C02': ['Consts'], 'C03': ['Consts'], 'C12': ['Consts'], 'C18': ['Consts'],
        'C13': ['SymbolOps'], 'C07': ['SymbolOps']}


def build():
    """Returns (ok, log, what). Rebuilds generated fragments, the Coq development and the driver.
    The Coq build continues past a broken file (make -k): whether a breakage concerns this
    property is decided afterwards by compiling its own Props file and tie files."""
    logs = []
    import translators
    changed = translators.regenerate()
    logs.append('generated fragments: %s' % (', '.join(changed) if changed else 'unchanged'))
    rc, out = sh('make -C %s setup JOBS=16 2>&1 | tail -60' % VERIF)
    logs.append(out[-1500:])
    if not os.path.exists(core.DRIVER):
        return False, out, 'model'
    return True, '\n'.join(logs), None


def check_ties(prop):
    """Compile the tie files this property depends on. Returns a list of broken tie descriptions."""
    broken = []
    import translators
    for t in TIES.get(prop, []):
        if t in translators.FAILED:
            broken.append('translator for gen/%s.v met a construct it does not support (fail-closed): %s' % (t, translators.FAILED[t]))
            continue
        vo = os.path.join(VERIF, 'coq', 'Tie', t + '.vo')
        gv, gvo = os.path.join(VERIF, 'coq', 'gen', t + '.v'), os.path.join(VERIF, 'coq', 'gen', t + '.vo')
        srcs = [os.path.join(VERIF, 'coq', 'Tie', t + '.v'), gv, gvo]
        if not os.path.exists(gv):
            broken.append('gen/%s.v is missing' % t)
            continue
        if not os.path.exists(gvo) or os.path.getmtime(gvo) < os.path.getmtime(gv):
            # never tie against a compiled fragment older than the fragment (make may have stopped before reaching it)
            rc, out = sh('cd %s/coq && timeout 900 coqc -Q Model Model -Q Proofs Proofs -Q gen Gen gen/%s.v' % (VERIF, t))
            if rc != 0:
                broken.append('gen/%s.v does not compile: %s' % (t, out[-400:]))
                continue
        if os.path.exists(vo) and all(os.path.exists(x) and os.path.getmtime(vo) >= os.path.getmtime(x) for x in srcs):
            continue       # built by make on this run from the current generated fragment
        cmd = ('cd %s/coq && timeout 900 coqc -Q Model Model -Q Proofs Proofs -Q Props Props -Q gen Gen -Q Tie Tie '
               '-o %s/props/tie/%s.vo Tie/%s.v' % (VERIF, core.BUILD, t, t))
        os.makedirs(os.path.join(core.BUILD, 'props', 'tie'), exist_ok=True)
        rc, out = sh(cmd)
        if rc != 0:
            broken.append('Tie/%s.v (generated fragment gen/%s.v no longer matches what the proofs use): %s' % (t, t, out[-600:]))
    return broken


def forbidden_words():
    rc, out = sh(r"grep -rnE '\b(Admitted|admit|Axiom|Parameter|Conjecture|Admit Obligations)\b|Unset Guard|bypass_check|type-in-type|impredicative-set' "
                 r"--include=*.v coq | grep -v '^coq/gen/Index' || true")
    hits = [l for l in out.split('\n') if l.strip()]
    return hits


def check_props_file(prop, tier):
    """
    Compile Props/<prop>.v alone and parse what Print Assumptions printed.
    Returns dict(obligations, discharged, theorems, open, log, ok)
    """
    src = os.path.join(VERIF, 'coq', 'Props', prop + '.v')
    res = {'obligations': 0, 'discharged': 0, 'theorems': [], 'open': [], 'log': '', 'ok': False, 'checker_cmd': ''}
    if not os.path.exists(src):
        res['log'] = 'no Props/%s.v' % prop
        return res
    text = open(src).read()
    theorems = re.findall(r'^\s*(?:Theorem|Lemma|Corollary)\s+(\w+)', text, re.M)
    printed = re.findall(r'^\s*Print Assumptions\s+(\w+)\s*\.', text, re.M)
    os.makedirs(os.path.join(core.BUILD, 'props'), exist_ok=True)
    cmd = ('cd %s/coq && timeout 900 coqc -Q Model Model -Q Proofs Proofs -Q Props Props -Q gen Gen -Q Tie Tie '
           '-o %s/props/%s.vo Props/%s.v' % (VERIF, core.BUILD, prop, prop))
    res['checker_cmd'] = cmd
    rc, out = sh(cmd)
    res['log'] = out[-3000:]
    if rc != 0:
        res['obligations'] = len(theorems)
        res['theorems'] = theorems
        res['open'] = theorems
        return res
    # split the output into one verdict per Print Assumptions, in order
    verdicts = []
    for line in out.split('\n'):
        if line.startswith('Closed under the global context'):
            verdicts.append('Closed')
        elif line.startswith('Axioms:'):
            verdicts.append('Axioms:\n')
        elif verdicts and verdicts[-1].startswith('Axioms:') and line.strip():
            verdicts[-1] += line + '\n'
    res['obligations'] = len(theorems)
    res['theorems'] = theorems
    if len(verdicts) != len(printed) or sorted(printed) != sorted(theorems):
        res['open'] = theorems
        res['log'] += '\nPrint Assumptions verdicts %d, printed %d, theorems %d' % (len(verdicts), len(printed), len(theorems))
        return res
    for name, v in zip(printed, verdicts):
        if v.startswith('Closed'):
            res['discharged'] += 1
        else:
            axioms = set(re.findall(r'^(\S+)\s*$|^(\S+)\s*:', v, re.M)) and set(
                m.group(1) for m in re.finditer(r'^([A-Za-z_][\w.\']*)\s*(?::|$)', v, re.M)) - {'Axioms'}
            if axioms and axioms <= ALLOWED_AXIOMS:
                res['discharged'] += 1
            else:
                res['open'].append(name + ' depends on ' + ','.join(sorted(axioms)))
    res['ok'] = res['discharged'] == res['obligations'] and res['obligations'] > 0
    if tier == 'thorough' and res['ok']:
        rc, out = sh('cd %s/coq && timeout 2400 coqchk -o -Q Model Model -Q Proofs Proofs -Q Props Props -Q gen Gen -Q Tie Tie Props.%s 2>&1'
                     % (VERIF, prop))
        res['coqchk'] = out[-900:]
        if rc != 0 or 'Modules were successfully checked' not in out or '* Axioms: <none>' not in out:
            res['ok'] = False
            res['open'].append('coqchk did not accept Props.%s' % prop)
    return res


def load_known():
    known = []
    path = os.path.join(VERIF, 'known_findings.txt')
    if os.path.exists(path):
        for line in open(path):
            line = line.strip()
            m = re.match(r'known:\s+property=(\w+)\s+key=(\S+)\s+(.*)', line)
            if m:
                known.append({'property': m.group(1), 'key': m.group(2), 'what': m.group(3)})
    return known


def write_replay(prop, kind, payload):
    os.makedirs(os.path.join(VERIF, 'replays'), exist_ok=True)
    body = json.dumps(payload, sort_keys=True, ensure_ascii=False, indent=1)
    h = hashlib.sha1(body.encode()).hexdigest()[:10]
    path = os.path.join(VERIF, 'replays', '%s-%s-%s.json' % (prop, kind, h))
    with open(path, 'w') as f:
        f.write(body)
    return path


def fails_in_fresh_process(prop, payload):
    """Replays a payload in a fresh interpreter; True when the failure shows there."""
    d = os.path.join(VERIF, 'build', 'tmp')
    os.makedirs(d, exist_ok=True)
    path = os.path.join(d, 'ctx-%d.json' % os.getpid())
    pl = dict(payload)
    pl['property'] = prop
    with open(path, 'w') as f:
        json.dump(pl, f)
    try:
        p = subprocess.run([sys.executable, os.path.abspath(__file__), '--replay', path], stdout=subprocess.PIPE,
                           stderr=subprocess.PIPE, timeout=300, env=dict(os.environ))
        return p.returncode == 1
    except Exception:   # noqa
        return False
    finally:
        try:
            os.remove(path)
        except OSError:
            pass


def add_context(prop, payload, trail):
    """A violation seen in a process that had run other cases before: find what the replay needs. Nothing when the case
    fails alone; else one earlier case that suffices (most recent first); else everything that ran before."""
    if fails_in_fresh_process(prop, payload):
        return
    for c in list(reversed(trail))[:60]:
        cand = dict(payload)
        cand['before'] = [c]
        if fails_in_fresh_process(prop, cand):
            payload['before'] = [c]
            return
    cand = dict(payload)
    cand['before'] = trail[-4000:]
    if fails_in_fresh_process(prop, cand):
        payload['before'] = cand['before']
    else:
        payload['replay_note'] = 'seen in the checking process only; not reproduced by replaying the recorded cases'


def main(argv):
    if len(argv) >= 2 and argv[0] == '--replay':
        payload = json.load(open(argv[1]))
        prop = payload['property']
        mod = importlib.import_module('props.' + prop.lower())
        # cases that ran earlier in the same process and are needed to show the failure
        for b in payload.get('before', []):
            try:
                mod.replay(b)
            except Exception:   # noqa
                pass
        ok, msg = mod.replay(payload)
        print(('HOLDS ' if ok else 'FAILS ') + msg)
        return 0 if ok else 1

    prop, tier = argv[0], (argv[1] if len(argv) > 1 else os.environ.get('VERIF_TIER', 'quick'))
    seed = int(os.environ.get('VERIF_SEED', '0') or 0)
    t0 = time.time()
    rep = core.Report(prop, tier, seed)
    broken = []          # names of theorems / ties / correspondences that no longer check

    ok, log, what = build()
    if not ok:
        broken.append('build (%s): %s' % (what, log[-1500:]))
    hits = forbidden_words()
    if hits:
        broken.append('forbidden declarations in the development: ' + '; '.join(hits[:5]))

    proofs = {'obligations': 0, 'discharged': 0, 'theorems': [], 'open': [], 'log': '', 'ok': False, 'checker_cmd': ''}
    if ok:
        for b in check_ties(prop):
            broken.append(b)
        proofs = check_props_file(prop, tier)
        if not proofs['ok']:
            broken.append('Props.%s: %s %s' % (prop, '; '.join(proofs['open'][:6]), proofs['log'][-800:]))

    mod = importlib.import_module('props.' + prop.lower())
    if ok or os.path.exists(core.DRIVER):
        try:
            mod.run(rep, tier, seed)
        except Exception:
            broken.append('harness error: ' + traceback.format_exc()[-2000:])
    for b in getattr(rep, 'broken', []):
        broken.append(b)

    # a broken proof / tie / correspondence without a concrete failing input yet: search harder
    if broken and not rep.violations and hasattr(mod, 'search'):
        try:
            mod.search(rep, tier, seed)
        except Exception:
            broken.append('search error: ' + traceback.format_exc()[-1500:])

    known = load_known()
    out_lines = []
    exit_code = 0
    seen_keys = set()
    for v in rep.violations:
        key = v.get('key', '')
        match = [k for k in known if k['property'] == prop and k['key'] == key]
        if match:
            if key not in seen_keys:
                out_lines.append('KNOWN-FINDING: property=%s %s' % (prop, match[0]['what']))
                seen_keys.add(key)
            rep.known.append(key)
            continue
        if key in seen_keys:
            continue
        seen_keys.add(key)
        payload = dict(v)
        at = payload.pop('_at', None)
        payload['property'] = prop
        if at is not None and getattr(rep, 'trail', None) is not None:
            add_context(prop, payload, rep.trail[:at])
        path = write_replay(prop, 'input', payload)
        out_lines.append('VIOLATION property=%s replay=%s' % (prop, path))
        exit_code = 1
    real_violations = exit_code
    if broken and not real_violations:
        payload = {'property': prop, 'no_longer_checks': broken,
                   'note': 'a theorem, tie or correspondence no longer checks and the search found no failing input'}
        path = write_replay(prop, 'unchecked', payload)
        out_lines.append('VIOLATION property=%s replay=%s no-failing-input-found' % (prop, path))
        exit_code = 1

    wall = time.time() - t0
    cov = {
        'checker_cmd': proofs['checker_cmd'] or 'make -C /verif setup',
        'trusted_base': TRUSTED_BASE + list(getattr(mod, 'TRUSTED_EXTRA', [])),
        'theorems': proofs['theorems'],
        'undischarged': proofs['open'],
        'evaluations': rep.evaluations,
        'distinct_nontrivial': len(rep.nontrivial),
        'rule': getattr(mod, 'RULE', ''),
        'samples': rep.samples or ['(no case was run)'],
        'distribution': rep.distribution,
        'disagreements_checked': getattr(rep, 'compared', 0),
        'known_findings_seen': sorted(set(rep.known)),
        'no_longer_checks': broken,
        'notes': rep.notes,
    }
    if proofs['discharged'] > 0:
        cov['obligations'] = proofs['obligations']
        cov['discharged'] = proofs['discharged']
    if 'coqchk' in proofs:
        cov['coqchk'] = proofs['coqchk']
    if getattr(rep, 'exhaustive', None) is not None:
        cov['exhaustive'] = rep.exhaustive
    if getattr(rep, 'traces', None) is not None:
        cov['traces_validated_against_impl'] = rep.traces
    ev = {
        'property_id': prop, 'tier': tier, 'seed': seed, 'level': 'proof',
        'coverage': cov,
        'assumptions': list(getattr(mod, 'ASSUMPTIONS', [])),
        'wall_s': round(wall, 2),
        'violations': sum(1 for l in out_lines if l.startswith('VIOLATION')),
    }
    os.makedirs(os.path.join(VERIF, 'evidence'), exist_ok=True)
    with open(os.path.join(VERIF, 'evidence', prop + '.json'), 'w') as f:
        json.dump(ev, f, indent=1, ensure_ascii=False, sort_keys=True)
    for l in out_lines:
        print(l)
    if exit_code == 0:
        print('PASS property=%s tier=%s obligations=%d discharged=%d cases=%d distinct=%d wall=%.1fs'
              % (prop, tier, proofs['obligations'], proofs['discharged'], rep.evaluations, len(rep.nontrivial), wall))
    return exit_code


if __name__ == '__main__':
    sys.exit(main(sys.argv[1:]))
