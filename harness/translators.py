"""
Fragments of the Coq development regenerated from /repo (and boolean.py) on every run.
Each translator is fail-closed: an unsupported construct raises. regenerate() returns the list of
generated files whose text changed.
"""
import os

VERIF = os.path.dirname(os.path.dirname(os.path.abspath(__file__)))
GEN = os.path.join(VERIF, 'coq', 'gen')


def write_if_changed(name, text):
    os.makedirs(GEN, exist_ok=True)
    path = os.path.join(GEN, name)
    old = None
    if os.path.exists(path):
        with open(path) as f:
            old = f.read()
    if old != text:
        tmp = path + '.tmp%d' % os.getpid()
        with open(tmp, 'w') as f:
            f.write(text)
        os.replace(tmp, path)
        return True
    return False


def regenerate():
    changed = []
    for name, fn in TRANSLATORS:
        if write_if_changed(name, fn()):
            changed.append(name)
    return changed


TRANSLATORS = []
