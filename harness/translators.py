"""
Fragments of the Coq development regenerated from /repo (and boolean.py) on every run.
Each translator is fail-closed: an unsupported construct raises. regenerate() returns the list of
generated files whose text changed. The tie files coq/Tie/*.v prove the generated fragments equal
to (or sufficient for) what the model and the proofs use.
"""
import ast
import os
import re

VERIF = os.path.dirname(os.path.dirname(os.path.abspath(__file__)))
GEN = os.path.join(VERIF, 'coq', 'gen')
REPO_SRC = '/repo/src/license_expression'


class Unsupported(Exception):
    pass


def write_if_changed(name, text):
    os.makedirs(GEN, exist_ok=True)
    path = os.path.join(GEN, name)
    old = None
    if os.path.exists(path):
        with open(path) as f:
            old = f.read()
    if old != text:
        tmp = path + '.tmp%d' % os.getpid()
        with open(tmp, 'w') as f:
            f.write(text)
        os.replace(tmp, path)
        return True
    return False


def coq_str(s):
    """A Python string as a Coq list of code points (type str of the model)."""
    return '[' + '; '.join('%d' % ord(c) for c in s) + ']%N'


def boolean_py_path():
    import boolean.boolean as b
    return b.__file__


def module_ast(path):
    with open(path) as f:
        return ast.parse(f.read(), path)


def find_class(tree, name):
    for n in tree.body:
        if isinstance(n, ast.ClassDef) and n.name == name:
            return n
    raise Unsupported('class %s not found' % name)


def find_func(node, name):
    for n in node.body:
        if isinstance(n, ast.FunctionDef) and n.name == name:
            return n
    raise Unsupported('function %s not found' % name)


def module_consts(tree):
    """Top-level NAME = <int or str constant> assignments."""
    out = {}
    for n in tree.body:
        if isinstance(n, ast.Assign) and len(n.targets) == 1 and isinstance(n.targets[0], ast.Name):
            if isinstance(n.value, ast.Constant) and isinstance(n.value.value, (int, str)):
                out[n.targets[0].id] = n.value.value
    return out


# ---------------------------------------------------------------- gen/ThreadProg.v

def is_self_attr(n, attr):
    return isinstance(n, ast.Attribute) and n.attr == attr and isinstance(n.value, ast.Name) and n.value.id == 'self'


def calls_any(node, names):
    for c in ast.walk(node):
        if isinstance(c, ast.Call):
            f = c.func
            if isinstance(f, ast.Name) and f.id in names:
                return True
            if isinstance(f, ast.Attribute) and f.attr == 'add' and isinstance(f.value, ast.Name) and f.value.id in names:
                return True
    return False


def thread_items(path):
    """The statements of Licensing.get_advanced_tokenizer with the instructions each stands for, in order. The body of a
    "with self.<attribute>:" block (a lock held around the construction) is read as if it stood there alone: a lock does not
    change what a thread does to its tokenizer, and the safety criterion does not rely on it. Fail-closed on anything else."""
    tree = module_ast(path)
    fn = find_func(find_class(tree, 'Licensing'), 'get_advanced_tokenizer')
    body = list(fn.body)
    if body and isinstance(body[0], ast.Expr) and isinstance(body[0].value, ast.Constant):
        body = body[1:]
    items = []
    state = {'local': None, 'adders': set()}

    def one(st):
        local, adders = state['local'], state['adders']
        if isinstance(st, ast.With):
            for it in st.items:
                if not (isinstance(it.context_expr, ast.Attribute) and isinstance(it.context_expr.value, ast.Name)
                        and it.context_expr.value.id == 'self' and it.optional_vars is None):
                    raise Unsupported('get_advanced_tokenizer: unsupported with statement at line %d' % st.lineno)
            items.append((st.lineno, st.lineno, []))
            for x in st.body:
                one(x)
            return
        ins = []
        if isinstance(st, ast.If):
            t = st.test
            ok = (isinstance(t, ast.Compare) and is_self_attr(t.left, 'advanced_tokenizer') and len(t.ops) == 1
                  and isinstance(t.ops[0], ast.IsNot) and isinstance(t.comparators[0], ast.Constant)
                  and t.comparators[0].value is None and not st.orelse and len(st.body) == 1
                  and isinstance(st.body[0], ast.Return) and is_self_attr(st.body[0].value, 'advanced_tokenizer'))
            if not ok:
                raise Unsupported('get_advanced_tokenizer: unsupported if statement at line %d' % st.lineno)
            ins.append('IRead')
        elif isinstance(st, ast.Assign):
            v = st.value
            if isinstance(v, ast.Call) and isinstance(v.func, ast.Name) and v.func.id == 'AdvancedTokenizer' and not v.args:
                ins.append('IAlloc')
                for tg in st.targets:      # Python assigns the targets from left to right
                    if isinstance(tg, ast.Name):
                        state['local'] = tg.id
                    elif is_self_attr(tg, 'advanced_tokenizer'):
                        ins.append('IPublish')
                    else:
                        raise Unsupported('get_advanced_tokenizer: unsupported assignment target at line %d' % st.lineno)
            elif (len(st.targets) == 1 and isinstance(st.targets[0], ast.Name) and isinstance(v, ast.Attribute)
                  and v.attr == 'add' and isinstance(v.value, ast.Name) and v.value.id == local):
                adders.add(st.targets[0].id)
            elif (len(st.targets) == 1 and is_self_attr(st.targets[0], 'advanced_tokenizer')
                  and isinstance(v, ast.Name) and v.id == local):
                ins.append('IPublish')
            else:
                raise Unsupported('get_advanced_tokenizer: unsupported assignment at line %d' % st.lineno)
        elif isinstance(st, ast.For):
            if not calls_any(st, adders | ({local} if local else set())):
                raise Unsupported('get_advanced_tokenizer: loop at line %d does not add names' % st.lineno)
            if any(isinstance(x, ast.Assign) and any(is_self_attr(t, 'advanced_tokenizer') for t in x.targets)
                   for x in ast.walk(st)):
                raise Unsupported('get_advanced_tokenizer: loop at line %d writes the shared slot' % st.lineno)
            ins.append('IAdd')
        elif isinstance(st, ast.Expr) and isinstance(st.value, ast.Call):
            f = st.value.func
            if isinstance(f, ast.Attribute) and f.attr == 'make_automaton' and isinstance(f.value, ast.Name) and f.value.id == local:
                ins.append('IFinalize')
            else:
                raise Unsupported('get_advanced_tokenizer: unsupported call at line %d' % st.lineno)
        elif isinstance(st, ast.Return):
            if isinstance(st.value, ast.Name) and st.value.id == local:
                ins.append('IReturn')
            elif is_self_attr(st.value, 'advanced_tokenizer'):
                ins.append('IReturn')
            else:
                raise Unsupported('get_advanced_tokenizer: unsupported return at line %d' % st.lineno)
        else:
            raise Unsupported('get_advanced_tokenizer: unsupported statement %s at line %d' % (type(st).__name__, st.lineno))
        items.append((st.lineno, st.end_lineno, ins))
    for st in body:
        one(st)
    return items


def tr_threadprog():
    items = thread_items(os.path.join(REPO_SRC, '__init__.py'))
    prog = [i for _, _, ins in items for i in ins]
    return ('(* generated from Licensing.get_advanced_tokenizer in /repo/src/license_expression/__init__.py; do not edit *)\n'
            'Require Import Model.Base Model.Threads.\n'
            'Definition thread_prog : prog := [%s].\n' % '; '.join(prog))


# ---------------------------------------------------------------- gen/Consts.v

def tr_consts():
    le = module_ast(os.path.join(REPO_SRC, '__init__.py'))
    bo = module_ast(boolean_py_path())
    lc, bc = module_consts(le), module_consts(bo)
    lines = ['(* generated from license_expression/__init__.py and boolean/boolean.py; do not edit *)',
             'Require Import Model.Base.', 'Open Scope N_scope.']
    for name in ('PARSE_UNKNOWN_TOKEN', 'PARSE_UNBALANCED_CLOSING_PARENS', 'PARSE_INVALID_EXPRESSION',
                 'PARSE_INVALID_NESTING', 'PARSE_INVALID_SYMBOL_SEQUENCE', 'PARSE_INVALID_OPERATOR_SEQUENCE'):
        if name not in bc or not isinstance(bc[name], int):
            raise Unsupported('boolean.py: constant %s not found' % name)
        lines.append('Definition g_%s : N := %d.' % (name, bc[name]))
    for name in ('PARSE_EXPRESSION_NOT_UNICODE', 'PARSE_INVALID_EXCEPTION', 'PARSE_INVALID_SYMBOL_AS_EXCEPTION',
                 'PARSE_INVALID_SYMBOL'):
        if name not in lc or not isinstance(lc[name], int):
            raise Unsupported('license_expression: constant %s not found' % name)
        lines.append('Definition g_%s : N := %d.' % (name, lc[name]))
    # keywords: KW_x = Keyword('text', TOKEN_y)
    kws = {}
    for n in le.body:
        if (isinstance(n, ast.Assign) and len(n.targets) == 1 and isinstance(n.targets[0], ast.Name)
                and n.targets[0].id.startswith('KW_') and isinstance(n.value, ast.Call)
                and isinstance(n.value.func, ast.Name) and n.value.func.id == 'Keyword'):
            a = n.value.args
            if len(a) != 2 or not isinstance(a[0], ast.Constant) or not isinstance(a[1], ast.Name):
                raise Unsupported('keyword definition at line %d' % n.lineno)
            kws[n.targets[0].id] = (a[0].value, a[1].id)
    want = {'KW_AND': 'TOKEN_AND', 'KW_OR': 'TOKEN_OR', 'KW_LPAR': 'TOKEN_LPAR', 'KW_RPAR': 'TOKEN_RPAR', 'KW_WITH': 'TOKEN_WITH'}
    for k, tokname in want.items():
        if k not in kws or kws[k][1] != tokname:
            raise Unsupported('keyword %s is not bound to %s' % (k, tokname))
        lines.append('Definition g_%s : str := %s.' % (k, coq_str(kws[k][0])))
    # KEYWORDS tuple must list exactly these five
    for n in le.body:
        if isinstance(n, ast.Assign) and isinstance(n.targets[0], ast.Name) and n.targets[0].id == 'KEYWORDS':
            names = sorted(e.id for e in n.value.elts)
            if names != sorted(want):
                raise Unsupported('KEYWORDS is %r' % names)
    # operator strings of AND / OR
    for cls, name in (('AND', 'g_op_and'), ('OR', 'g_op_or')):
        init = find_func(find_class(le, cls), '__init__')
        val = None
        for st in ast.walk(init):
            if (isinstance(st, ast.Assign) and is_self_attr(st.targets[0], 'operator') and isinstance(st.value, ast.Constant)):
                val = st.value.value
        if val is None:
            raise Unsupported('%s.operator not found' % cls)
        lines.append('Definition %s : str := %s.' % (name, coq_str(val)))
    # the three regular expressions, as texts
    def regex_text(tree, varname):
        for n in tree.body:
            if isinstance(n, ast.Assign) and isinstance(n.targets[0], ast.Name) and n.targets[0].id == varname:
                for c in ast.walk(n.value):
                    if isinstance(c, ast.Call) and isinstance(c.func, ast.Attribute) and c.func.attr == 'compile':
                        if isinstance(c.args[0], ast.Constant):
                            return re.sub(r'\s+', '', c.args[0].value)
        raise Unsupported('regular expression %s not found' % varname)
    ac = module_ast(os.path.join(REPO_SRC, '_pyahocorasick.py'))
    lines.append('Definition g_re_tokenizer : str := %s.' % coq_str(regex_text(ac, '_tokenizer')))
    lines.append('Definition g_re_simple_tokenizer : str := %s.' % coq_str(regex_text(le, '_simple_tokenizer')))
    lines.append('Definition g_re_valid_key : str := %s.' % coq_str(regex_text(le, 'is_valid_license_key')))
    # precedence in BooleanAlgebra.parse and the sort orders
    parse = find_func(find_class(bo, 'BooleanAlgebra'), 'parse')
    prec = None
    for st in ast.walk(parse):
        if isinstance(st, ast.Assign) and isinstance(st.targets[0], ast.Name) and st.targets[0].id == 'precedence':
            d = st.value
            prec = {}
            for k, v in zip(d.keys, d.values):
                kn = k.attr if isinstance(k, ast.Attribute) else k.id
                prec[kn] = v.value
    if not prec or set(prec) != {'NOT', 'AND', 'OR', 'TOKEN_LPAR'}:
        raise Unsupported('precedence table %r' % (prec,))
    lines.append('Definition g_prec_and : nat := %d%%nat.' % prec['AND'])
    lines.append('Definition g_prec_or : nat := %d%%nat.' % prec['OR'])
    lines.append('Definition g_prec_lpar : nat := %d%%nat.' % prec['TOKEN_LPAR'])
    for cls, name in (('Symbol', 'g_order_symbol'), ('AND', 'g_order_and'), ('OR', 'g_order_or')):
        init = find_func(find_class(bo, cls), '__init__')
        val = None
        for st in ast.walk(init):
            if isinstance(st, ast.Assign) and is_self_attr(st.targets[0], 'sort_order') and isinstance(st.value, ast.Constant):
                val = st.value.value
        if val is None:
            raise Unsupported('%s.sort_order not found' % cls)
        lines.append('Definition %s : nat := %d%%nat.' % (name, val))
    return '\n'.join(lines) + '\n'


# ---------------------------------------------------------------- gen/Preds.v

def expr_to_coq(e, env, first=('self', 's'), second=('other',)):
    """Integer / boolean expressions over the start / end of the first token (self, or the lambda's parameter) and of the
    second one (the other parameter of the method), and local names. Parameter names are taken from the source."""
    rec = lambda x, env=env: expr_to_coq(x, env, first, second)
    if isinstance(e, ast.Attribute) and isinstance(e.value, ast.Name) and e.value.id in tuple(first) + tuple(second) and e.attr in ('start', 'end'):
        who = 'a' if e.value.id in first else 'b'
        return '(%s%s)' % (who, 's' if e.attr == 'start' else 'e')
    if isinstance(e, ast.Name):
        if e.id in env:
            return env[e.id]
        raise Unsupported('name %s' % e.id)
    if isinstance(e, ast.Constant) and isinstance(e.value, int) and not isinstance(e.value, bool):
        return '(%d)' % e.value
    if isinstance(e, ast.BinOp) and isinstance(e.op, (ast.Add, ast.Sub, ast.Mult)):
        op = {ast.Add: '+', ast.Sub: '-', ast.Mult: '*'}[type(e.op)]
        return '(%s %s %s)' % (rec(e.left), op, rec(e.right))
    if isinstance(e, ast.UnaryOp) and isinstance(e.op, ast.USub):
        return '(- %s)' % rec(e.operand)
    if isinstance(e, ast.UnaryOp) and isinstance(e.op, ast.Not):
        return '(negb %s)' % rec(e.operand)
    if isinstance(e, ast.BoolOp):
        op = '&&' if isinstance(e.op, ast.And) else '||'
        return '(' + (' %s ' % op).join(rec(v) for v in e.values) + ')'
    if isinstance(e, ast.Compare):
        parts = []
        left = e.left
        for op, right in zip(e.ops, e.comparators):
            sym = {ast.Lt: '<?', ast.LtE: '<=?', ast.Eq: '=?'}.get(type(op))
            l, r = rec(left), rec(right)
            if sym:
                parts.append('(%s %s %s)' % (l, sym, r))
            elif isinstance(op, ast.Gt):
                parts.append('(%s <? %s)' % (r, l))
            elif isinstance(op, ast.GtE):
                parts.append('(%s <=? %s)' % (r, l))
            else:
                raise Unsupported('comparison %s' % type(op).__name__)
            left = right
        return '(' + ' && '.join(parts) + ')'
    if isinstance(e, ast.Call) and isinstance(e.func, ast.Name) and e.func.id == 'len' and len(e.args) == 1:
        a = e.args[0]
        if isinstance(a, ast.Name) and a.id in first:
            return '(g_len as_ ae)'
        if isinstance(a, ast.Name) and a.id in second:
            return '(g_len bs be)'
    raise Unsupported('expression %s' % ast.dump(e)[:80])


def method_return(fn):
    """The method body as local integer assignments followed by one return."""
    env = {}
    params = [a.arg for a in fn.args.args]
    first, second = tuple(params[:1]), tuple(params[1:2])
    body = [s for s in fn.body if not (isinstance(s, ast.Expr) and isinstance(s.value, ast.Constant))]
    for st in body[:-1]:
        if isinstance(st, ast.Assign) and len(st.targets) == 1 and isinstance(st.targets[0], ast.Name):
            env[st.targets[0].id] = expr_to_coq(st.value, env, first, second)
        else:
            raise Unsupported('%s: statement %s' % (fn.name, type(st).__name__))
    if not isinstance(body[-1], ast.Return):
        raise Unsupported('%s: no final return' % fn.name)
    return expr_to_coq(body[-1].value, env, first, second)


def tr_preds():
    ac = module_ast(os.path.join(REPO_SRC, '_pyahocorasick.py'))
    tok = find_class(ac, 'Token')
    sub = lambda s: s.replace('(as)', 'as_').replace('(ae)', 'ae').replace('(bs)', 'bs').replace('(be)', 'be')
    lines = ['(* generated from the Token methods of /repo/src/license_expression/_pyahocorasick.py; do not edit *)',
             'From Coq Require Import ZArith Bool.', 'Open Scope Z_scope.']
    lines.append('Definition g_len (as_ ae : Z) : Z := %s.' % sub(method_return(find_func(tok, '__len__'))))
    for py, name in (('is_after', 'g_is_after'), ('is_before', 'g_is_before'), ('__contains__', 'g_contains'), ('overlap', 'g_overlap')):
        lines.append('Definition %s (as_ ae bs be : Z) : bool := %s.' % (name, sub(method_return(find_func(tok, py)))))
    # the sort key: key = lambda s: (s.start, -len(s),)
    srt = find_func(tok, 'sort')
    key = None
    for st in ast.walk(srt):
        if isinstance(st, ast.Lambda):
            if not isinstance(st.body, ast.Tuple) or len(st.body.elts) != 2:
                raise Unsupported('sort key')
            lam = tuple(a.arg for a in st.args.args)
            if len(lam) != 1:
                raise Unsupported('sort key lambda parameters')
            key = [sub(expr_to_coq(x, {}, lam, ())) for x in st.body.elts]
    if not key:
        raise Unsupported('sort key lambda not found')
    lines.append('Definition g_sort_key (as_ ae : Z) : Z * Z := (%s, %s).' % (key[0], key[1]))
    # filter_overlapping: which comparison decides a length tie
    fo = find_func(ac, 'filter_overlapping')
    # the loop may live in filter_overlapping itself or in a module-level helper it calls
    called = {n.func.id for n in ast.walk(fo) if isinstance(n, ast.Call) and isinstance(n.func, ast.Name)}
    places = [fo] + [n for n in ac.body if isinstance(n, ast.FunctionDef) and n.name in called]
    tie = None
    for place in places:
        # the names of the current and of the next token are read from "x = tokens[i]" / "y = tokens[j]" with "j = i + 1"
        idx_of, succ = {}, {}
        for st in ast.walk(place):
            if isinstance(st, ast.Assign) and len(st.targets) == 1 and isinstance(st.targets[0], ast.Name):
                v = st.value
                if isinstance(v, ast.Subscript) and isinstance(v.slice, ast.Name):
                    idx_of[st.targets[0].id] = v.slice.id
                if (isinstance(v, ast.BinOp) and isinstance(v.op, ast.Add) and isinstance(v.left, ast.Name)
                        and isinstance(v.right, ast.Constant) and v.right.value == 1):
                    succ[st.targets[0].id] = v.left.id
        role = {}
        for name, ix in idx_of.items():
            role[name] = 'next' if ix in succ else 'curr'
        for st in ast.walk(place):
            if (isinstance(st, ast.Compare) and isinstance(st.left, ast.Call) and getattr(st.left.func, 'id', '') == 'len'
                    and len(st.comparators) == 1 and isinstance(st.comparators[0], ast.Call)
                    and getattr(st.comparators[0].func, 'id', '') == 'len'
                    and isinstance(st.left.args[0], ast.Name) and isinstance(st.comparators[0].args[0], ast.Name)):
                a, b = st.left.args[0].id, st.comparators[0].args[0].id
                op = type(st.ops[0]).__name__
                if tie is not None:
                    raise Unsupported('filter_overlapping: more than one length comparison')
                tie = (role.get(a), op, role.get(b))
    if tie == ('next', 'LtE', 'curr'):
        tie = ('curr', 'GtE', 'next')
    if tie != ('curr', 'GtE', 'next'):
        raise Unsupported('filter_overlapping length comparison is %r' % (tie,))
    lines.append('Definition g_keep_curr (lcurr lnext : Z) : bool := (lnext <=? lcurr).')
    return '\n'.join(lines) + '\n'


# ---------------------------------------------------------------- gen/Index.v

def tr_index():
    import json
    path = os.path.join(REPO_SRC, 'data', 'scancode-licensedb-index.json')
    with open(path) as f:
        idx = json.load(f)
    if not isinstance(idx, list):
        raise Unsupported('license index is not a list')
    lines = ['(* generated from /repo/src/license_expression/data/scancode-licensedb-index.json; do not edit *)',
             'Require Import Model.Base Model.Index.', 'Open Scope N_scope.',
             'Definition E (k s : str) (o : list str) (x d : bool) : ientry :=',
             '  {| license_key := k; spdx_key := s; other_spdx := o; iexc := x; deprecated := d |}.',
             'Definition shipped_index : list ientry := [']
    rows = []
    for l in idx:
        if not isinstance(l, dict):
            raise Unsupported('index entry is not a mapping')
        k = l.get('license_key', '') or ''
        s = l.get('spdx_license_key', '') or ''
        o = l.get('other_spdx_license_keys', []) or []
        x = bool(l.get('is_exception', ''))
        d = bool(l.get('is_deprecated', False))
        for t in [k, s] + list(o):
            if not isinstance(t, str) or any(ord(c) > 127 for c in t):
                raise Unsupported('index name %r is not ASCII text' % (t,))
        rows.append('E %s %s [%s] %s %s' % (coq_str(k), coq_str(s), '; '.join(coq_str(a) for a in o),
                                            'true' if x else 'false', 'true' if d else 'false'))
    lines.append(';\n'.join(rows))
    lines.append('].')
    return '\n'.join(lines) + '\n'



# ---------------------------------------------------------------- gen/SymbolOps.v

def tr_symbolops():
    """sort_key(), __eq__ and __hash__ of the license symbols: the tuples and the comparison they return."""
    le = module_ast(os.path.join(REPO_SRC, '__init__.py'))

    def strip_doc(fn):
        return [s for s in fn.body if not (isinstance(s, ast.Expr) and isinstance(s.value, ast.Constant))]

    def body_of(cls, name):
        """The function that does the work and its statements: the method itself, or the module-level helper it hands its own
        parameters to in a single return statement (the helper's parameters then play the part of self / other)."""
        fn = find_func(find_class(le, cls), name)
        body = strip_doc(fn)
        if len(body) == 1 and isinstance(body[0], ast.Return) and isinstance(body[0].value, ast.Call) \
                and isinstance(body[0].value.func, ast.Name) and not body[0].value.keywords:
            call = body[0].value
            params = [a.arg for a in fn.args.args]
            if [getattr(a, 'id', None) for a in call.args] == params:
                for n in le.body:
                    if isinstance(n, ast.FunctionDef) and n.name == call.func.id and len(n.args.args) == len(params):
                        return n, strip_doc(n)
        return fn, body

    def field(e, me, parts):
        """One element of a sort key / hash tuple as a Coq term over the named components."""
        if isinstance(e, ast.Call) and isinstance(e.func, ast.Name) and e.func.id == 'str' and len(e.args) == 1 \
                and isinstance(e.args[0], ast.Name) and e.args[0].id == me:
            return 's'
        if isinstance(e, ast.Constant) and e.value is False:
            return 'false'
        if isinstance(e, ast.Constant) and e.value is True:
            return 'true'
        if isinstance(e, ast.Constant) and isinstance(e.value, int) and e.value in (0, 1):
            return 'true' if e.value else 'false'
        if isinstance(e, ast.Constant) and e.value == '':
            return '[]'
        if isinstance(e, ast.Call) and isinstance(e.func, ast.Name) and e.func.id == 'bool' and len(e.args) == 1:
            a = e.args[0]
            if isinstance(a, ast.Attribute) and a.attr == 'is_exception' and isinstance(a.value, ast.Name) and a.value.id in parts:
                return parts[a.value.id] + 'e'
        if isinstance(e, ast.Attribute) and e.attr == 'is_exception' and isinstance(e.value, ast.Name) and e.value.id in parts:
            return parts[e.value.id] + 'e'
        if isinstance(e, ast.Attribute) and e.attr == 'key' and isinstance(e.value, ast.Name) and e.value.id in parts:
            return parts[e.value.id] + 'k'
        if isinstance(e, ast.Attribute) and e.attr in ('license_symbol', 'exception_symbol') and isinstance(e.value, ast.Name) and e.value.id == me:
            return 'h' + ('l' if e.attr == 'license_symbol' else 'r')
        raise Unsupported('symbol field %s' % ast.dump(e)[:80])

    def tuple_of(cls, name):
        fn, body = body_of(cls, name)
        me = fn.args.args[0].arg
        parts = {me: ''}
        for st in body[:-1]:
            ok = (isinstance(st, ast.Assign) and len(st.targets) == 1 and isinstance(st.targets[0], ast.Name)
                  and isinstance(st.value, ast.Attribute) and isinstance(st.value.value, ast.Name) and st.value.value.id == me
                  and st.value.attr in ('license_symbol', 'exception_symbol'))
            if not ok:
                raise Unsupported('%s.%s: statement at line %d' % (cls, name, st.lineno))
            parts[st.targets[0].id] = 'l' if st.value.attr == 'license_symbol' else 'r'
        if not isinstance(body[-1], ast.Return):
            raise Unsupported('%s.%s: no final return' % (cls, name))
        v = body[-1].value
        if name == '__hash__':
            if not (isinstance(v, ast.Call) and isinstance(v.func, ast.Name) and v.func.id == 'hash' and len(v.args) == 1):
                raise Unsupported('%s.__hash__ is not hash(<tuple>)' % cls)
            v = v.args[0]
        if not isinstance(v, ast.Tuple):
            raise Unsupported('%s.%s does not return a tuple' % (cls, name))
        return [field(x, me, parts) for x in v.elts]

    def eq_of(cls):
        """The final return of __eq__: a conjunction of attribute equalities between self and other."""
        fn, body = body_of(cls, '__eq__')
        me, other = fn.args.args[0].arg, fn.args.args[1].arg
        last = body[-1]
        if not isinstance(last, ast.Return):
            raise Unsupported('%s.__eq__: no final return' % cls)
        v = last.value
        conj = v.values if isinstance(v, ast.BoolOp) and isinstance(v.op, ast.And) else [v]
        out = []
        for c in conj:
            ok = (isinstance(c, ast.Compare) and len(c.ops) == 1 and isinstance(c.ops[0], ast.Eq)
                  and isinstance(c.left, ast.Attribute) and isinstance(c.comparators[0], ast.Attribute)
                  and c.left.attr == c.comparators[0].attr and isinstance(c.left.value, ast.Name) and isinstance(c.comparators[0].value, ast.Name)
                  and {c.left.value.id, c.comparators[0].value.id} == {me, other})
            if not ok:
                raise Unsupported('%s.__eq__: comparison %s' % (cls, ast.dump(c)[:80]))
            out.append(c.left.attr)
        return out

    lines = ['(* generated from the symbol classes of /repo/src/license_expression/__init__.py; do not edit *)',
             'Require Import Model.Base Model.Expr.']
    for cls, tag in (('LicenseSymbol', 'plain'), ('LicenseSymbolLike', 'like')):
        def defines(name):
            return any(isinstance(n, ast.FunctionDef) and n.name == name for n in find_class(le, cls).body)
        sk = tuple_of(cls, 'sort_key') if defines('sort_key') else None     # else inherited from LicenseSymbol
        if sk is not None:
            if len(sk) != 6:
                raise Unsupported('%s.sort_key has %d fields' % (cls, len(sk)))
            lines.append('Definition g_sort_key_%s (s k : str) (e : bool) : str * bool * str * bool * str * bool := (%s).' % (tag, ', '.join(sk)))
        for name in ('__eq__', '__hash__'):
            if not defines(name):
                continue
            if name == '__eq__':
                attrs = eq_of(cls)
                lines.append('Definition g_eq_fields_%s : list bool := [%s].' % (tag, '; '.join('true' if a == 'key' else 'false' for a in attrs)))
                if sorted(attrs) != ['is_exception', 'key']:
                    raise Unsupported('%s.__eq__ compares %r' % (cls, attrs))
            else:
                hv = tuple_of(cls, '__hash__')
                lines.append('Definition g_hash_%s (k : str) (e : bool) : hinput := %s.' % (tag, 'HPlain %s %s' % tuple(hv) if hv == ['k', 'e'] else 'HPlain [] false (* %r *)' % (hv,)))
                if hv != ['k', 'e']:
                    raise Unsupported('%s.__hash__ hashes %r' % (cls, hv))
    wk = tuple_of('LicenseWithExceptionSymbol', 'sort_key')
    if len(wk) != 6:
        raise Unsupported('LicenseWithExceptionSymbol.sort_key has %d fields' % len(wk))
    lines.append('Definition g_sort_key_with (s lk : str) (le : bool) (rk : str) (re : bool) : str * bool * str * bool * str * bool := (%s).' % ', '.join(wk))
    weq = eq_of('LicenseWithExceptionSymbol')
    if sorted(weq) != ['exception_symbol', 'license_symbol']:
        raise Unsupported('LicenseWithExceptionSymbol.__eq__ compares %r' % (weq,))
    wh = tuple_of('LicenseWithExceptionSymbol', '__hash__')
    if wh != ['hl', 'hr']:
        raise Unsupported('LicenseWithExceptionSymbol.__hash__ hashes %r' % (wh,))
    lines.append('Definition g_hash_with (hl hr : hinput) : hinput := HWith hl hr.')
    return '\n'.join(lines) + '\n'


# ---------------------------------------------------------------- writes to objects not made in the same call

MUTATORS = {'append', 'add', 'update', 'pop', 'popleft', 'clear', 'extend', 'insert', 'remove', 'setdefault', 'discard', 'appendleft',
            'sort', 'reverse', 'popitem', 'extendleft', 'rotate', '__setitem__', '__delitem__', '__setattr__', '__delattr__'}
FRESH_CALLS = {'list', 'dict', 'set', 'deque', 'defaultdict', 'tuple', 'sorted', 'frozenset', 'OrderedDict', 'Counter', 'bytearray',
               'reversed', 'iter'}
REFLECTIVE = {'setattr', 'delattr', 'globals', 'vars', 'exec', 'eval', 'locals'}


def writes_inventory(paths):
    """Every statement of the source files that can change an object the running call chain did not create itself: assignments
    to and deletions of attributes and items, and uses of mutating methods (called or taken as bound methods), whose receiver is
    not a local variable bound only to freshly made objects (literals, comprehensions, constructor calls of built-in containers
    and of the classes of the modules). A write through a parameter (other than self) is followed to the call sites of the
    function inside the modules: it disappears where the argument is a fresh local of the caller, moves on where the argument is
    a parameter of the caller, and is listed at the call site ("passes") otherwise; without a call site it stays listed in the
    function. Assignments to self attributes in __init__ are left out; module-level names bound to mutable containers,
    module-level statements that write through attributes / items, decorators other than the plain ones, class attributes bound
    to anything but constants, and reflective access are listed as such.
    Returns a sorted list of (function, kind, target text)."""
    if isinstance(paths, str):
        paths = [paths]
    trees = [module_ast(p) for p in paths]
    classes = {n.name: n for t in trees for n in t.body if isinstance(n, ast.ClassDef)}
    out = []
    PLAIN_DECORATORS = {'classmethod', 'staticmethod', 'property', 'total_ordering'}

    def root(n):
        while isinstance(n, (ast.Attribute, ast.Subscript)):
            n = n.value
        return n

    def fresh_value(v):
        if isinstance(v, (ast.List, ast.Dict, ast.Set, ast.ListComp, ast.DictComp, ast.SetComp, ast.GeneratorExp, ast.Tuple, ast.Constant,
                          ast.JoinedStr)):
            return True
        return isinstance(v, ast.Call) and isinstance(v.func, ast.Name) and (v.func.id in FRESH_CALLS or v.func.id in classes)

    funcs = {}          # qualified name -> info
    by_name = {}        # bare name -> [qualified names]

    def scan_fn(fn, qual, is_method, is_init):
        a = fn.args
        params = [x.arg for x in a.posonlyargs + a.args]
        kwonly = [x.arg for x in a.kwonlyargs]
        allparams = set(params + kwonly)
        if a.vararg:
            allparams.add(a.vararg.arg)
        if a.kwarg:
            allparams.add(a.kwarg.arg)
        globs, binds = set(), {}
        for n in ast.walk(fn):
            if isinstance(n, (ast.Global, ast.Nonlocal)):
                globs.update(n.names)
            if isinstance(n, ast.Assign):
                for t in n.targets:
                    if isinstance(t, ast.Name):
                        binds.setdefault(t.id, []).append(n.value)
                    elif isinstance(t, (ast.Tuple, ast.List)):
                        for e in ast.walk(t):
                            if isinstance(e, ast.Name):
                                binds.setdefault(e.id, []).append(None)
            elif isinstance(n, (ast.AugAssign, ast.AnnAssign)) and isinstance(n.target, ast.Name):
                binds.setdefault(n.target.id, []).append(None)
            elif isinstance(n, (ast.For, ast.AsyncFor, ast.comprehension)):
                for e in ast.walk(n.target):
                    if isinstance(e, ast.Name):
                        binds.setdefault(e.id, []).append(None)
            elif isinstance(n, (ast.With, ast.AsyncWith)):
                for it in n.items:
                    if it.optional_vars is not None:
                        for e in ast.walk(it.optional_vars):
                            if isinstance(e, ast.Name):
                                binds.setdefault(e.id, []).append(None)
            elif isinstance(n, ast.NamedExpr):
                binds.setdefault(n.target.id, []).append(n.value)
            elif isinstance(n, ast.ExceptHandler) and n.name:
                binds.setdefault(n.name, []).append(None)
        fresh = {k for k, vs in binds.items() if k not in allparams and k not in globs and all(v is not None and fresh_value(v) for v in vs)}
        me = params[0] if (is_method and params) else None
        info = {'params': params, 'kwonly': kwonly, 'fresh': fresh, 'me': me, 'param_writes': [], 'calls': [], 'node': fn}
        funcs[qual] = info
        by_name.setdefault(fn.name, []).append(qual)

        def rec(target, how):
            r = root(target)
            if isinstance(target, ast.Name):
                if target.id in globs:
                    out.append((qual, how, ast.unparse(target)))
                return
            if isinstance(r, ast.Name):
                if r.id in fresh:
                    return
                if r.id == me and is_init and isinstance(target, ast.Attribute) and isinstance(target.value, ast.Name):
                    return
                if r.id in allparams and r.id != me:
                    info['param_writes'].append((r.id, how, ast.unparse(target)))
                    return
            out.append((qual, how, ast.unparse(target)))
        for n in ast.walk(fn):
            if isinstance(n, ast.Assign):
                for t in n.targets:
                    for e in (t.elts if isinstance(t, (ast.Tuple, ast.List)) else [t]):
                        rec(e, 'assign')
            elif isinstance(n, (ast.AugAssign, ast.AnnAssign)):
                rec(n.target, 'assign')
            elif isinstance(n, ast.Delete):
                for t in n.targets:
                    rec(t, 'del')
            elif isinstance(n, ast.Attribute) and isinstance(n.ctx, ast.Load) and n.attr in MUTATORS:
                # Token.sort(...) and the like: a method of a class of the module reached through the class is not list.sort
                if isinstance(n.value, ast.Name) and n.value.id in classes and \
                        any(isinstance(m, ast.FunctionDef) and m.name == n.attr for m in classes[n.value.id].body):
                    continue
                rec(n, 'mutator')
            elif isinstance(n, ast.Attribute) and n.attr == '__dict__':
                out.append((qual, 'reflect', ast.unparse(n)))
            elif isinstance(n, ast.Call) and isinstance(n.func, ast.Name) and n.func.id in REFLECTIVE:
                out.append((qual, 'reflect', ast.unparse(n)[:60]))
            if isinstance(n, ast.Call):
                callee = n.func.id if isinstance(n.func, ast.Name) else (n.func.attr if isinstance(n.func, ast.Attribute) else None)
                if callee:
                    info['calls'].append((callee, isinstance(n.func, ast.Attribute), n))

    def decorators(node, qual):
        # a decorator can keep state between calls (functools.lru_cache, cached_property ...): all but the plain ones are listed
        for d in node.decorator_list:
            text = ast.unparse(d)
            if text in PLAIN_DECORATORS or text.endswith(('.setter', '.getter', '.deleter')):
                continue
            out.append((qual, 'decorator', text[:60]))

    for tree in trees:
        for n in tree.body:
            if isinstance(n, ast.ImportFrom) and any(x.name == '*' for x in n.names):
                raise Unsupported('star import')
            if isinstance(n, (ast.Assign, ast.AnnAssign)) and n.value is not None:
                v = n.value
                mut = isinstance(v, (ast.List, ast.Dict, ast.Set, ast.ListComp, ast.DictComp, ast.SetComp)) or \
                    (isinstance(v, ast.Call) and isinstance(v.func, ast.Name) and v.func.id in FRESH_CALLS - {'tuple', 'frozenset', 'sorted'})
                if mut:
                    for t in (n.targets if isinstance(n, ast.Assign) else [n.target]):
                        out.append(('<module>', 'mutable', ast.unparse(t)))
            if isinstance(n, (ast.FunctionDef, ast.AsyncFunctionDef)):
                decorators(n, n.name)
                scan_fn(n, n.name, False, False)
            elif not isinstance(n, (ast.ClassDef, ast.Import, ast.ImportFrom)):
                # module-level statements other than definitions: writes through attributes / items and mutating calls
                for x in ast.walk(n):
                    if isinstance(x, ast.Assign):
                        for t in x.targets:
                            if not isinstance(t, (ast.Name, ast.Tuple, ast.List)):
                                out.append(('<module>', 'assign', ast.unparse(t)))
                    elif isinstance(x, (ast.AugAssign, ast.Delete)):
                        out.append(('<module>', 'assign', ast.unparse(x)[:60]))
                    elif isinstance(x, ast.Attribute) and isinstance(x.ctx, ast.Load) and x.attr in MUTATORS:
                        out.append(('<module>', 'mutator', ast.unparse(x)))
                    elif isinstance(x, ast.Call) and isinstance(x.func, ast.Name) and x.func.id in REFLECTIVE:
                        out.append(('<module>', 'reflect', ast.unparse(x)[:60]))
            if isinstance(n, ast.ClassDef):
                decorators(n, n.name)
                for m in n.body:
                    if isinstance(m, (ast.FunctionDef, ast.AsyncFunctionDef)):
                        decorators(m, n.name + '.' + m.name)
                        static = any(ast.unparse(d) == 'staticmethod' for d in m.decorator_list)
                        scan_fn(m, n.name + '.' + m.name, not static, m.name == '__init__')
                    elif isinstance(m, (ast.Assign, ast.AnnAssign)) and m.value is not None:
                        v = m.value
                        slots = isinstance(m, ast.Assign) and any(isinstance(t, ast.Name) and t.id == '__slots__' for t in m.targets)
                        const = isinstance(v, (ast.Constant, ast.Lambda, ast.Name, ast.Attribute)) or \
                            (isinstance(v, ast.Tuple) and all(isinstance(e, ast.Constant) for e in v.elts)) or \
                            (slots and isinstance(v, (ast.List, ast.Tuple)) and all(isinstance(e, ast.Constant) for e in v.elts))
                        if not const:
                            for t in (m.targets if isinstance(m, ast.Assign) else [m.target]):
                                out.append((n.name, 'classattr', ast.unparse(t)))
                    elif isinstance(m, ast.ClassDef):
                        raise Unsupported('nested class %s.%s' % (n.name, m.name))

    # follow writes through parameters to the call sites
    def resolve(qual, pname, how, text, seen):
        if (qual, pname) in seen:
            return
        seen = seen | {(qual, pname)}
        g = funcs[qual]
        bare = g['node'].name
        plist = g['params'][1:] if g['me'] else g['params']
        sites = []
        for fq, f in funcs.items():
            for callee, via_attr, call in f['calls']:
                if callee != bare:
                    continue
                # a method is reached through an attribute, a function by its name (or module.name)
                arg = None
                if pname in plist and plist.index(pname) < len(call.args) and not any(isinstance(x, ast.Starred) for x in call.args):
                    arg = call.args[plist.index(pname)]
                for kw in call.keywords:
                    if kw.arg == pname:
                        arg = kw.value
                sites.append((fq, f, call, arg))
        if not sites:
            out.append((qual, how, text))
            return
        for fq, f, call, arg in sites:
            if arg is None:
                # default value, *args or **kwargs: not followed
                out.append((fq, 'passes', '%s to %s as %s' % ('?', bare, pname)))
                continue
            r = root(arg)
            if isinstance(arg, (ast.List, ast.Dict, ast.Set, ast.ListComp, ast.DictComp, ast.SetComp, ast.Constant, ast.Tuple)) or fresh_value(arg):
                continue
            if isinstance(r, ast.Name) and r.id in f['fresh']:
                continue
            fparams = set(f['params'] + f['kwonly'])
            if isinstance(arg, ast.Name) and arg.id in fparams and arg.id != f['me']:
                resolve(fq, arg.id, how, text, seen)
                continue
            out.append((fq, 'passes', '%s to %s' % (ast.unparse(arg)[:50], bare)))
    for qual, g in list(funcs.items()):
        for pname, how, text in g['param_writes']:
            resolve(qual, pname, how, text, frozenset())
    return sorted(set(out))


def coq_string(s):
    if any(ord(c) < 32 or ord(c) > 126 for c in s):
        raise Unsupported('non-printable text in a write target: %r' % s)
    return '"' + s.replace('"', '""') + '"'


def tr_writes():
    """gen/Writes.v: the inventory of both source files."""
    inv = writes_inventory([os.path.join(REPO_SRC, f) for f in ('_pyahocorasick.py', '__init__.py')])
    lines = ['(* generated from /repo/src/license_expression/*.py by harness/translators.py: do not edit *)',
             'From Coq Require Import String List.', 'Import ListNotations.', 'Require Import Model.Writes.', 'Open Scope string_scope.', '',
             'Definition writes : list write :=', '  [ ' + ';\n    '.join('(%s, %s, %s)' % tuple(coq_string(x) for x in w) for w in inv) + ' ].']
    return '\n'.join(lines) + '\n'


TRANSLATORS = [('ThreadProg.v', tr_threadprog), ('Consts.v', tr_consts), ('Preds.v', tr_preds), ('SymbolOps.v', tr_symbolops), ('Writes.v', tr_writes), ('Index.v', tr_index)]


FAILED = {}


def regenerate():
    """Regenerates every fragment. A translator that meets an unsupported construct does not stop the
    others: its fragment is replaced by a stub (so the tie file that needs it cannot be built from a stale copy)
    and the failure is recorded in FAILED for the properties that depend on it."""
    changed = []
    FAILED.clear()
    for name, fn in TRANSLATORS:
        try:
            text = fn()
        except Exception as e:   # noqa
            FAILED[name[:-2]] = '%s: %s' % (type(e).__name__, e)
            path = os.path.join(GEN, name)
            # the fragment is replaced by a stub that defines nothing the tie file needs (a missing file would stop make
            # altogether and leave stale compiled fragments of the other translators behind)
            write_if_changed(name, '(* the translator could not read the source: %s *)\nDefinition translator_failed : True := I.\n'
                             % str(e).replace('*)', '* )')[:300])
            for ext in ('.vo', '.vos', '.vok', '.glob'):
                if os.path.exists(path[:-2] + ext):
                    os.remove(path[:-2] + ext)
            continue
        if write_if_changed(name, text):
            changed.append(name)
    return changed


if __name__ == '__main__':
    print(regenerate())
