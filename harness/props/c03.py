"""
C03 — Malformed input is rejected with an ExpressionError that locates the fault.

Correspondence: the full outcome (tree | (class, code, token string, position)) of Licensing.parse
against the model on all token strings up to a length bound under every strict / simple / validate
combination, and on a malformed stream (token soups over generated tables, invalid characters,
blank input); Licensing.validate against the model's validate.
Spec oracle on the implementation: an independent recogniser decides which strings are malformed;
those must raise ExpressionError; no other exception type may escape parse, validate, dedup,
is_equivalent, contains and the listings; validate never raises; blank input parses to None; a
raised parse error with token string and position must point at these words in the input.
"""
import random

from core import imp, run_model, enc_table, enc_str, make_licensing, dec_str, outcome_of, enc_opt, enc_expr
import gen
import parsing

RULE = ('exhaustive: all strings of length <= 4 (quick) / <= 5 (thorough) over the 8-letter token alphabet x 8 flag '
        'combinations; grammar-derived valid token sequences (depth <= 3, up to 24 tokens) with one local damage of each kind '
        'the property lists (operator dropped, operand or WITH group after ")", operand before "(", "()", operator after "(" / '
        'before ")", doubled / leading operator, parenthesis dropped / added, stray WITH); seeded malformed stream: token soups over generated tables with invalid characters, blank input; '
        'non-trivial = the string is malformed (not valid, not valid + one dangling operator); distinct by (text, flags, table)')
ASSUMPTIONS = ['a single dangling AND / OR at the very end of the input is outside the claim (the suite pins both outcomes)',
               'Licensing.tokenize() called directly raises boolean.py ParseError by design and is not checked for the class']

API_CALLS = ['validate', 'dedup', 'is_equivalent', 'contains', 'license_symbols', 'license_keys',
             'unknown_license_symbols', 'unknown_license_keys', 'primary_license_symbol', 'primary_license_key']


def other_calls_error(L, s, le):
    """No exception other than ExpressionError escapes; validate never raises. Returns error text or None.
    Blank input is outside the claim (it is not an expression: parse returns None)."""
    if not s.strip():
        return None
    for name in API_CALLS:
        try:
            if name in ('is_equivalent', 'contains'):
                getattr(L, name)(s, 'mit')
                getattr(L, name)('mit', s)
            else:
                getattr(L, name)(s)
        except le.ExpressionError:
            if name == 'validate':
                return 'validate raised instead of reporting'
        except Exception as e:   # noqa
            return '%s(%r) raised %s' % (name, s, type(e).__name__)
    return None


def check_text(L, s, reftoks, le, flags):
    """flags: (validate, strict, simple). Returns (error text or None, outcome)."""
    va, st, si = flags
    got = parsing.parse_outcome(L, s, validate=va, strict=st, simple=si)
    if got == [5] or got[0] in (3, 4):
        return 'parse raised an exception that is not an ExpressionError', got
    if not s.strip():
        if got != [0, []]:
            return 'blank input did not parse to None', got
        return None, got
    if reftoks is not None:
        cls, _ = parsing.ref_classify(reftoks)
        if cls == 'invalid' and got[0] == 0:
            return 'malformed input was turned into an expression', got
    err = parsing.position_error(s, got)
    if err:
        return err, got
    return None, got


def soup(rng, T):
    names = [n for n, _ in gen.names_of(T)]
    parts = []
    for _ in range(rng.randint(1, 7)):
        r = rng.random()
        if r < 0.25 and names:
            parts.append(gen.vary_name(rng, rng.choice(names)))
        elif r < 0.45:
            parts.append(rng.choice(gen.UNKNOWN_WORDS))
        elif r < 0.8:
            parts.append(rng.choice(['and', 'or', 'with', '(', ')', 'AND', 'Or', 'WITH']))
        elif r < 0.9:
            parts.append(rng.choice(['a,b', 'x/y', '"q"', 'é!', 'a;b', '#', '$x']))
        else:
            parts.append(rng.choice(['', ' ', '\t']))
    sep = [gen.gen_ws(rng, 1, 2) if rng.random() < 0.9 else '' for _ in parts]
    return ''.join(p + s for p, s in zip(parts, sep))


def valid_tokens(rng, depth):
    """A valid token tuple over the token alphabet, from the grammar."""
    def emit(node, out):
        tag = node[0]
        if tag == 'sym':
            out.append(rng.choice(['k', 'k', 'e', 'u']))
        elif tag == 'with':
            out.extend([rng.choice(['k', 'u']), 'with', rng.choice(['e', 'k', 'u'])])
        elif tag == 'par':
            out.append('(')
            emit(node[1], out)
            out.append(')')
        else:
            for j, c in enumerate(node[1]):
                if j:
                    out.append(tag)
                if c[0] in ('and', 'or'):
                    out.append('(')
                    emit(c, out)
                    out.append(')')
                else:
                    emit(c, out)
    out = []
    emit(gen.gen_surface(rng, depth), out)
    return out


def malform(rng, toks):
    """One local damage to a valid token list: the shapes the property enumerates."""
    t = list(toks)
    kind = rng.choice(['drop_op', 'operand_after_rpar', 'with_after_rpar', 'operand_before_lpar', 'empty_parens',
                       'op_after_lpar', 'op_before_rpar', 'double_op', 'leading_op', 'drop_paren', 'stray_with', 'extra_rpar'])
    idx = lambda pred: [i for i, x in enumerate(t) if pred(x)]
    if kind == 'drop_op':
        c = idx(lambda x: x in ('and', 'or'))
        if c:
            del t[rng.choice(c)]
    elif kind == 'operand_after_rpar':
        c = idx(lambda x: x == ')')
        if c:
            t.insert(rng.choice(c) + 1, rng.choice(['k', 'u']))
    elif kind == 'with_after_rpar':
        c = idx(lambda x: x == ')')
        if c:
            i = rng.choice(c) + 1
            t[i:i] = ['k', 'with', 'e']
    elif kind == 'operand_before_lpar':
        c = idx(lambda x: x == '(')
        if c:
            t.insert(rng.choice(c), rng.choice(['k', 'u', ')']))
    elif kind == 'empty_parens':
        i = rng.randrange(len(t) + 1)
        t[i:i] = ['(', ')']
    elif kind == 'op_after_lpar':
        c = idx(lambda x: x == '(')
        if c:
            t.insert(rng.choice(c) + 1, rng.choice(['and', 'or']))
    elif kind == 'op_before_rpar':
        c = idx(lambda x: x == ')')
        if c:
            t.insert(rng.choice(c), rng.choice(['and', 'or']))
    elif kind == 'double_op':
        c = idx(lambda x: x in ('and', 'or'))
        if c:
            t.insert(rng.choice(c), rng.choice(['and', 'or']))
    elif kind == 'leading_op':
        t.insert(0, rng.choice(['and', 'or']))
    elif kind == 'drop_paren':
        c = idx(lambda x: x in '()')
        if c:
            del t[rng.choice(c)]
    elif kind == 'stray_with':
        t.insert(rng.randrange(len(t) + 1), 'with')
    else:
        t.insert(rng.randrange(len(t) + 1), ')')
    return tuple(t), kind


def run(rep, tier, seed):
    le = imp()
    rng = random.Random(seed)
    rep.broken = []
    rep.compared = 0
    maxlen = 5 if tier == 'thorough' else 4
    L = make_licensing(gen.TOKEN_TABLE)
    encT = enc_table(gen.TOKEN_TABLE)
    strings = list(gen.token_strings(maxlen)) + [()]
    flagsets = [(va, st, si) for va in (False, True) for st in (False, True) for si in (False, True)]
    for flags in flagsets:
        va, st, si = flags
        reqs = [(4, [encT, int(va), int(st), int(si), enc_str(gen.render_tokens(t))]) for t in strings]
        res = run_model(reqs)
        for t, r in zip(strings, res):
            s = gen.render_tokens(t)
            ref = parsing.token_kinds_to_ref(t, si)
            err, got = check_text(L, s, ref, le, flags)
            cls = parsing.ref_classify(ref)[0] if t else 'blank'
            rep.case(('tok', t, flags), nontrivial=(cls == 'invalid'),
                     sample={'text': s, 'flags': flags, 'outcome': got[:2]} if len(t) == maxlen and cls == 'invalid' else None)
            rep.count('tokens_' + cls)
            rep.count('outcome_%s' % ('ok' if got[0] == 0 else 'parse_error_%d' % got[1] if got[0] == 1 else 'expression_error'))
            rep.compared += 1
            if err:
                rep.violations.append({'key': 'tokens', 'kind': 'tokens', 'tokens': list(t), 'flags': list(flags), 'text': s,
                                       'what': err + ' -> %r' % (got,)})
            else:
                g = got
                if g[0] == 2 and g[1][0] == 2:
                    g = [2, [2]]
                    r = [2, [2]] if (r[0] == 2 and r[1][0] == 2) else r
                if g != r and len(rep.broken) < 5:
                    rep.broken.append('correspondence C03/tokens: %r flags=%r model %r implementation %r' % (s, flags, r, got))
        if flags == (False, False, False):
            for t in strings:
                if len(t) <= 3:
                    s = gen.render_tokens(t)
                    e2 = other_calls_error(L, s, le)
                    if e2:
                        rep.violations.append({'key': 'api', 'kind': 'api', 'text': s, 'table': gen.TOKEN_TABLE, 'what': e2})
    # damaged valid expressions: one local malformation anywhere in a grammar-derived token sequence
    nm = 40000 if tier == 'thorough' else 4000
    dam = []
    for _ in range(nm):
        base = valid_tokens(rng, rng.randint(1, 3))
        t, kind = malform(rng, base)
        if len(t) <= 24:
            dam.append((t, kind, rng.choice(flagsets)))
    reqs = [(4, [encT, int(f[0]), int(f[1]), int(f[2]), enc_str(gen.render_tokens(t))]) for t, _, f in dam]
    res = run_model(reqs)
    for (t, kind, flags), r in zip(dam, res):
        s = gen.render_tokens(t)
        ref = parsing.token_kinds_to_ref(t, flags[2])
        err, got = check_text(L, s, ref, le, flags)
        cls = parsing.ref_classify(ref)[0]
        rep.case(('damaged', t, flags), nontrivial=(cls == 'invalid'),
                 sample={'text': s, 'damage': kind, 'flags': flags, 'outcome': got[:2]} if cls == 'invalid' and len(t) >= 8 else None)
        rep.count('damaged_' + cls)
        rep.compared += 1
        if err:
            small = gen.shrink_list(list(t), lambda c: bool(c) and check_text(
                L, gen.render_tokens(c), parsing.token_kinds_to_ref(tuple(c), flags[2]), le, flags)[0] is not None)
            rep.violations.append({'key': 'tokens', 'kind': 'tokens', 'tokens': list(small), 'flags': list(flags),
                                   'text': gen.render_tokens(small), 'what': err + ' (damage: %s)' % kind})
            continue
        g = got
        if g[0] == 2 and g[1][0] == 2:
            g = [2, [2]]
            r = [2, [2]] if (r[0] == 2 and r[1][0] == 2) else r
        if g != r and len(rep.broken) < 5:
            rep.broken.append('correspondence C03/damaged: %r flags=%r model %r implementation %r' % (s, flags, r, got))
    # the same damaged expressions over multi-word names one of which starts at an inner word of another, an unknown word
    # being that other name's first word: "gnu" + "gpl v3" are two operands although "gnu gpl" starts the name "gnu gpl v2"
    T2 = [('GNU-GPL-2.0', ['gnu gpl v2'], False), ('GPL-3.0', ['gpl v3'], False), ('mit', [], False), ('cpe', [], True),
          # two names sharing a one-character word: 'gpl v' + '2' are two operands although 'v 2' is a name too
          ('GPL-V', ['gpl v'], False), ('V-2', ['v 2'], False)]
    L2 = make_licensing(T2)
    encT2 = enc_table(T2)
    words2 = {'k': ['mit', 'gpl v3', 'gnu gpl v2', 'GPL  V3', 'gpl v', 'gpl v'], 'e': ['cpe'], 'u': ['zz', 'gnu', 'gnu', '2'], 'and': ['and'], 'or': ['OR'],
              'with': ['With'], '(': ['('], ')': [')']}
    multi = []
    for t, kind, flags in dam[:(6000 if tier == 'thorough' else 1500)] + [(tuple(x), 'none', (False, False, False)) for x in
                                                                         (['u', 'k'], ['(', 'u', 'k', ')'], ['u', 'and', '(', 'u', 'k', 'or', 'u', ')'], ['k', 'u'], ['(', 'k', 'u', ')'], ['k', 'u', 'and', 'k'])]:
        s2 = ' '.join(rng.choice(words2[x]) for x in t)
        multi.append((t, kind, (flags[0], flags[1], False), s2))
    for toks, s2 in ((['k', 'u'], 'gpl v 2'), (['(', 'k', 'u', ')'], '( gpl v 2 )'), (['k', 'u', 'and', 'k'], 'GPL  v 2 and mit'),
                     (['k', 'or', 'k', 'u'], 'mit or gpl v 2'), (['u', 'k'], 'gnu gpl v3'), (['k', 'and', '(', 'u', 'k', ')'], 'mit and (gnu gpl v3)')):
        for st in (False, True):
            multi.append((tuple(toks), 'none', (False, st, False), s2))
    res = run_model([(4, [encT2, int(f[0]), int(f[1]), 0, enc_str(s2)]) for t, _, f, s2 in multi])
    for (t, kind, flags, s2), r in zip(multi, res):
        ref = parsing.token_kinds_to_ref(t, False)
        err, got = check_text(L2, s2, ref, le, flags)
        rep.case(('multiword', s2, flags), nontrivial=(parsing.ref_classify(ref)[0] == 'invalid'), sample=None)
        rep.count('damaged_multiword_names')
        if err:
            rep.violations.append({'key': 'tokens-multiword', 'kind': 'text', 'table': T2, 'flags': list(flags), 'text': s2,
                                   'tokens': list(t), 'what': err + ' (damage: %s)' % kind})
            continue
        g = got
        if g[0] == 2 and g[1][0] == 2:
            g = [2, [2]]
            r = [2, [2]] if (r[0] == 2 and r[1][0] == 2) else r
        if g != r and len(rep.broken) < 5:
            rep.broken.append('correspondence C03/multiword: %r flags=%r model %r implementation %r' % (s2, flags, r, got))
    # validate() against the model
    vreqs = [(10, [encT, int(st), enc_str(gen.render_tokens(t))]) for t in strings if t for st in (False, True)]
    vmeta = [(t, st) for t in strings if t for st in (False, True)]
    vres = run_model(vreqs)
    for (t, st), r in zip(vmeta, vres):
        s = gen.render_tokens(t)
        rep.case(('validate', t, st), nontrivial=False)
        try:
            info = L.validate(s, strict=st)
        except Exception as e:   # noqa
            rep.violations.append({'key': 'validate-raises', 'kind': 'validate', 'text': s, 'strict': st,
                                   'table': gen.TOKEN_TABLE, 'what': 'validate raised %s' % type(e).__name__})
            continue
        got = [enc_opt(info.normalized_expression, enc_str), len(info.errors),
               [enc_str(x) for x in info.invalid_symbols]]
        mod = [r[0], len(r[1]), r[2]]
        rep.compared += 1
        if got != mod and len(rep.broken) < 5:
            rep.broken.append('correspondence C03/validate: %r strict=%r model %r implementation %r' % (s, st, mod, got))
    # malformed stream over generated tables
    n = 6000 if tier == 'thorough' else 700
    reqs, metas = [], []
    T, Lt, eT = None, None, None
    for i in range(n):
        if i % 20 == 0:
            T = gen.gen_table(rng, maxn=3)
            Lt = make_licensing(T)
            eT = enc_table(T)
        s = soup(rng, T)
        if ''.join(c.lower() for c in s) != s.lower():
            continue
        flags = rng.choice(flagsets)
        reqs.append((4, [eT, int(flags[0]), int(flags[1]), int(flags[2]), enc_str(s)]))
        metas.append((T, Lt, s, flags))
    res = run_model(reqs)
    for (T, Lt, s, flags), r in zip(metas, res):
        err, got = check_text(Lt, s, None, le, flags)
        rep.case(('soup', s, flags, repr(T)), nontrivial=(got[0] != 0), sample={'table': T, 'text': s, 'outcome': got[:2]})
        rep.count('soup')
        rep.compared += 1
        if not err:
            err = other_calls_error(Lt, s, le)
        if err:
            rep.violations.append({'key': 'soup', 'kind': 'soup', 'table': T, 'text': s, 'flags': list(flags),
                                   'what': err + ' -> %r' % (got,)})
            continue
        g = got
        if g[0] == 2 and g[1][0] == 2:
            g = [2, [2]]
            r = [2, [2]] if (r[0] == 2 and r[1][0] == 2) else r
        if g != r and len(rep.broken) < 5:
            rep.broken.append('correspondence C03/soup: table %r text %r flags %r model %r implementation %r' % (T, s, flags, r, got))
    # non-text arguments: ExpressionError, never another exception (None parses to None)
    for arg in (None, b'mit', 12, 1.5, ['mit'], object()):
        rep.case(('nontext', repr(type(arg))), nontrivial=False)
        try:
            r = L.parse(arg)
            if arg is not None:
                pass
        except le.ExpressionError:
            pass
        except Exception as e:   # noqa
            rep.violations.append({'key': 'nontext', 'kind': 'nontext', 'text': repr(arg),
                                   'what': 'parse(%r) raised %s' % (arg, type(e).__name__)})


def replay(payload):
    le = imp()
    T = [tuple(x) for x in payload.get('table', gen.TOKEN_TABLE)]
    L = make_licensing([(k, a, e) for k, a, e in T])
    s = payload['text']
    if payload.get('kind') in ('api', 'validate'):
        err = other_calls_error(L, s, le)
        return err is None, err or 'no foreign exception'
    flags = tuple(payload.get('flags', (False, False, False)))
    ref = parsing.token_kinds_to_ref(tuple(payload['tokens']), flags[2]) if 'tokens' in payload else None
    err, got = check_text(L, s, ref, le, flags)
    return err is None, (err or 'rejected / located as required') + ' %r' % (got,)
