"""
C18 — Simple and default tokenizers agree on space-free symbols.

Correspondence: both tokenizers of the implementation against the model on all token strings up
to a length bound in which no two plain words are adjacent, for tables without aliases and with
single-word keys. Spec oracle on the implementation: the two outcomes are identical (same tree, or
an error of the same kind, code, token and position), strict and non-strict.
"""
import random

from core import imp, run_model, enc_table, enc_str, make_licensing
import gen
import parsing

RULE = ('exhaustive: all strings of length <= 5 (quick) / <= 6 (thorough) over the 8-letter token alphabet with no two '
        'adjacent plain words, strict and non-strict, rendered with single spaces and with a seeded random layout (case, '
        'Unicode white space, U+0130 in unknown words, the same unknown word in several casings on one shared Licensing); generated single-word tables; non-trivial = length >= 2; '
        'distinct by (text, strict, table)')
ASSUMPTIONS = ['the table has no aliases and its keys contain no white space; no two words that are neither operators nor '
               'parentheses are adjacent in the input']

PLAIN = ('k', 'e', 'u')


def isolated(t):
    return not any(a in PLAIN and b in PLAIN for a, b in zip(t, t[1:]))


def check_text(L, s, strict):
    d = parsing.parse_outcome(L, s, strict=strict, simple=False)
    m = parsing.parse_outcome(L, s, strict=strict, simple=True)
    if d != m:
        return 'default %r simple %r' % (d, m), d, m
    return None, d, m


def reproduce(T, before, s, strict):
    """The disagreement on a fresh Licensing that first parsed the texts of ``before`` (both tokenizers)."""
    L = make_licensing(T)
    for b, st in before:
        check_text(L, b, st)
    return check_text(L, s, strict)[0]


def minimal_before(T, seen, s, strict):
    """Smallest history found that still shows the disagreement on a fresh Licensing: none, one earlier text sharing a
    word with ``s``, or everything parsed so far on the shared instance."""
    if reproduce(T, [], s, strict):
        return []
    words = set(s.lower().split())
    cands = [(b, st) for b, st in seen if words & set(b.lower().split())]
    for c in cands[-400:]:
        if reproduce(T, [c], s, strict):
            return [list(c)]
    return [list(c) for c in seen[-2000:]]


def run(rep, tier, seed):
    le = imp()
    rng = random.Random(seed)
    rep.trail = []
    rep.broken = []
    rep.compared = 0
    maxlen = 6 if tier == 'thorough' else 5
    tables = [gen.TOKEN_TABLE, [('GPL-2.0+', [], False), ('Classpath-exception-2.0', [], True), ('mit', [], False)]]
    texts = {'k': ['mit', 'MIT', 'Mit'], 'e': ['cpe', 'CPE'], 'u': ['zz', 'ZZ', 'Zz', 'İx', 'or-later', 'Or-Later', 'andy', 'ANDY', 'GPL-2.0/MIT', 'bsd,', 'zz?'],
             'and': ['and', 'AND', 'And'], 'or': ['or', 'OR'], 'with': ['with', 'WITH', 'wITh'], '(': ['('], ')': [')']}
    strings = [t for t in gen.token_strings(maxlen) if isolated(t)]
    L = make_licensing(gen.TOKEN_TABLE)
    encT = enc_table(gen.TOKEN_TABLE)
    seen = []
    for strict in (False, True):
        cases = []
        for t in strings:
            cases.append((t, gen.render_tokens(t)))
            # a second rendering with random case and white space
            parts = [rng.choice(texts[x]) for x in t]
            s = gen.gen_ws(rng, 0, 1)
            for j, p in enumerate(parts):
                if j:
                    s += gen.gen_ws(rng, 1, 2) if (p not in '()' and parts[j - 1] not in '()') else gen.gen_ws(rng, 0, 1)
                s += p
            cases.append((t, s))
        reqs = []
        for t, s in cases:
            reqs.append((4, [encT, 0, int(strict), 0, enc_str(s)]))
            reqs.append((4, [encT, 0, int(strict), 1, enc_str(s)]))
        res = run_model(reqs)
        for i, (t, s) in enumerate(cases):
            err, d, m = check_text(L, s, strict)
            seen.append((s, strict))
            rep.case(('tok', s, strict), nontrivial=(len(t) >= 2),
                     sample={'text': s, 'strict': strict, 'outcome': d[:2]} if len(t) == maxlen and i % 997 == 0 else None)
            rep.count('ok' if d[0] == 0 else 'error')
            if err:
                if len(rep.violations) < 3:
                    rep.violations.append({'key': 'differs', 'kind': 'text', 'table': gen.TOKEN_TABLE, 'text': s, 'strict': strict,
                                           'before': minimal_before(gen.TOKEN_TABLE, seen[:-1], s, strict),
                                           'what': 'simple and default tokenizers disagree: ' + err})
                continue
            rep.compared += 2
            if (res[2 * i] != d or res[2 * i + 1] != m) and len(rep.broken) < 5:
                rep.broken.append('correspondence C18: %r strict=%r model (%r, %r) implementation (%r, %r)'
                                  % (s, strict, res[2 * i], res[2 * i + 1], d, m))
    # letters whose case folding is not their lower-casing (sharp s, final sigma, long s, ligatures): both tokenizers must
    # use the same notion of "ignoring case" (str.lower)
    FT = [('Straße-1.0', [], False), ('gauss', [], False), ('Groß-exception', [], True), ('ﬁle-lic', [], False), ('mit', [], False)]
    Lf = make_licensing(FT)
    fwords = ['Straße-1.0', 'STRASSE-1.0', 'strasse-1.0', 'STRAßE-1.0', 'gauss', 'gauß', 'GAUSS', 'Groß-exception', 'GROSS-EXCEPTION',
              'groß-exception', 'ﬁle-lic', 'file-lic', 'FILE-LIC', 'ſtraße-1.0', 'mit', 'zz']
    for w1 in fwords:
        for tmpl in ('%s', 'mit and %s', 'mit with %s', '%s with Groß-exception', '(%s) or zz'):
            s = tmpl % w1
            for strict in (False, True):
                err, d, m = check_text(Lf, s, strict)
                rep.case(('fold', s, strict), nontrivial=True, sample={'table': FT, 'text': s, 'outcome': d[:2]} if w1 == 'gauß' and tmpl == '%s' else None)
                rep.count('case_fold_letters')
                if err:
                    rep.violations.append({'key': 'differs', 'kind': 'text', 'table': FT, 'text': s, 'strict': strict,
                                           'what': 'simple and default tokenizers disagree: ' + err})
    # generated single-word tables and soups of isolated words
    n = 4000 if tier == 'thorough' else 500
    for i in range(n):
        T = gen.gen_table(rng, maxn=4, aliases=False, single_word=True)
        Lt = make_licensing(T)
        keys = [k for k, _, _ in T]
        parts = []
        prev_plain = False
        for _ in range(rng.randint(1, 8)):
            r = rng.random()
            if r < 0.5 and not prev_plain:
                parts.append(gen.vary_case(rng, rng.choice(keys)) if rng.random() < 0.6 else gen.vary_case(rng, rng.choice(gen.UNKNOWN_WORDS)))
                prev_plain = True
            else:
                parts.append(rng.choice(['and', 'or', 'with', '(', ')', 'AND', 'OR', 'With']))
                prev_plain = False
        s = ' '.join(parts)
        if ''.join(c.lower() for c in s) != s.lower():
            continue
        strict = rng.random() < 0.5
        rep.trail.append({'table': T, 'text': s, 'strict': strict})
        err, d, m = check_text(Lt, s, strict)
        rep.case(('gen', s, strict, repr(T)), nontrivial=True, sample={'table': T, 'text': s, 'outcome': d[:2]})
        rep.count('generated')
        if err:
            rep.violations.append({'key': 'differs', 'kind': 'text', 'table': T, 'text': s, 'strict': strict, '_at': len(rep.trail) - 1,
                                   'what': 'simple and default tokenizers disagree: ' + err})


def replay(payload):
    T = [tuple(x) for x in payload['table']]
    L = make_licensing([(k, a, e) for k, a, e in T])
    for b in payload.get('before', []):
        if not isinstance(b, dict):     # earlier texts on this very Licensing; dict entries are whole earlier cases, replayed by main
            check_text(L, b[0], b[1])
    err, d, m = check_text(L, payload['text'], payload.get('strict', False))
    return err is None, err or 'same outcome %r' % (d,)
