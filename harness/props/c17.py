"""
C17 — Token selection yields disjoint, exactly positioned tokens covering the text.

Correspondence: filter_overlapping on all small interval configurations and Trie.tokenize on name
sets x texts against the model. Spec oracle on the implementation: output in text order, pairwise
non-overlapping, a sub-multiset of the input; every token's string is the slice of the text; every
non-blank word of the text lies in exactly one token; the leftmost of the longest matches is kept;
an isolated match is kept; of two matches overlapping only each other the longer (earlier on a tie)
is kept and the words of the other reappear as unmatched tokens.
"""
import itertools
import random

from core import imp, run_model, enc_str, dec_str
import gen
from props import c16

RULE = ('exhaustive: all multisets of <= 3 (quick) / <= 4 (thorough) intervals over 7 positions given to filter_overlapping '
        'in sorted and in shuffled order; seeded: name sets built to overlap in chains (a b, b c d, d e f g, ...) x texts '
        'with varying white space, parentheses and U+0130; non-trivial = at least two input intervals overlap / at least '
        'two matches overlap; distinct by the configuration / (names, text)')
ASSUMPTIONS = ['interval configurations given directly to filter_overlapping are arbitrary, not only those a scan can produce']


def overlap(a, b):
    return not (a[1] < b[0] or b[1] < a[0])


def check_filter(ivs, out):
    """ivs / out: lists of (start, end, id). Returns error text or None."""
    srt = sorted(out, key=lambda t: (t[0], t[1]))
    if [(t[0], t[1]) for t in out] != [(t[0], t[1]) for t in srt]:
        return 'output not in text order'
    for x, y in zip(out, out[1:]):
        if y[0] <= x[1]:
            return 'output tokens overlap: %r %r' % (x, y)
    rest = list(ivs)
    for t in out:
        if t in rest:
            rest.remove(t)
        else:
            return 'output token %r is not an input token' % (t,)
    if ivs:
        mx = max(t[1] - t[0] for t in ivs)
        longest = sorted([t for t in ivs if t[1] - t[0] == mx], key=lambda t: t[0])
        first = longest[0]
        if not any((t[0], t[1]) == (first[0], first[1]) for t in out):
            return 'the leftmost longest match %r was dropped' % (first,)
    for t in ivs:
        others = list(ivs)
        others.remove(t)
        if not any(overlap(t, o) for o in others):
            if t not in out:
                return 'isolated match %r was dropped' % (t,)
    for i, a in enumerate(ivs):
        for b in ivs[i + 1:]:
            if overlap(a, b) and (a[0], a[1]) != (b[0], b[1]):
                oth = [o for o in ivs if o is not a and o is not b]
                if not any(overlap(a, o) or overlap(b, o) for o in oth):
                    la, lb = a[1] - a[0], b[1] - b[0]
                    keep = a if (la > lb or (la == lb and a[0] <= b[0])) else b
                    if not any((t[0], t[1]) == (keep[0], keep[1]) for t in out):
                        return 'pair rule: %r should be kept of %r, %r' % (keep, a, b)
    return None


def impl_filter(ivs):
    from license_expression._pyahocorasick import Token, filter_overlapping
    toks = [Token(s, e, '', i) for s, e, i in ivs]
    return [(t.start, t.end, t.value) for t in filter_overlapping(toks)]


def check_tokenize(names, text, le):
    from license_expression._pyahocorasick import Trie
    t = Trie()
    for n, v in names:
        t.add(n, v)
    t.make_automaton()
    # the same tokenizer is first asked about the text in other letter cases: the tokens of a text are those of that text alone,
    # whatever the tokenizer was asked before (a result remembered under the case-folded text would come back here)
    for variant in (text.swapcase(), text.upper(), text.lower()):
        if variant != text:
            try:
                list(t.tokenize(variant))
                list(t.tokenize(variant, include_unmatched=False))
            except Exception:   # noqa
                pass
    toks = list(t.tokenize(text))
    enc = [[x.start, x.end, enc_str(x.string), [] if x.value is None else [x.value]] for x in toks]
    err = None
    # the matches alone (include_unmatched=False): the kept matches of the full result, in the same order; and the result can be
    # gone through twice
    try:
        res = t.tokenize(text, include_unmatched=False)
        only = [(x.start, x.end, x.value) for x in res]
        again_only = [(x.start, x.end, x.value) for x in res] if not hasattr(res, '__next__') else only
        want_only = [(x.start, x.end, x.value) for x in toks if x.value is not None]
        if only != want_only or again_only != want_only:
            err = err or 'tokenize(include_unmatched=False) = %r, the matches of the full result are %r' % (only, want_only)
    except Exception as ex:   # noqa
        err = err or 'tokenize(include_unmatched=False) raised %s: %s' % (type(ex).__name__, ex)
    # another tokenizer that stores every word of the text is built and used; the first one answers as before
    other = Trie()
    for w in dict.fromkeys(text.lower().replace('(', ' ( ').replace(')', ' ) ').split()):
        other.add(w, 99)
    other.make_automaton()
    try:
        list(other.tokenize(text))
        again = [[x.start, x.end, enc_str(x.string), [] if x.value is None else [x.value]] for x in t.tokenize(text)]
        if again != enc:
            err = 'the tokens differ once another tokenizer over the words of the text was built: %r, before %r' % (again, enc)
    except Exception as ex:   # noqa
        err = 'after another tokenizer over the words of the text was built: %s: %s' % (type(ex).__name__, ex)
    prev_end = -1
    covered = [0] * len(text)
    for x in toks:
        if x.start <= prev_end:
            err = err or 'tokens out of order or overlapping at %d' % x.start
        prev_end = x.end
        if x.string != text[x.start:x.end + 1]:
            err = err or 'token string %r is not the slice %r' % (x.string, text[x.start:x.end + 1])
        for i in range(max(x.start, 0), min(x.end + 1, len(text))):
            covered[i] += 1
    for i, c in enumerate(text):
        if not c.isspace() and covered[i] != 1:
            err = err or 'character %d (%r) is covered %d times' % (i, c, covered[i])
    # tokens start and end at word boundaries
    for x in toks:
        if x.start > 0 and not (text[x.start - 1].isspace() or text[x.start - 1] in '()' or text[x.start] in '()'):
            err = err or 'token starts inside a word at %d' % x.start
    # selection rules against the brute-force matches
    occ = c16.brute(names, text)
    ivs = [(a, b, v) for a, b, s, v in occ]
    kept = [(x.start, x.end, x.value) for x in toks if x.value is not None]
    e2 = check_filter(ivs, kept)
    if e2:
        err = err or e2
    return err, enc


def chain_names(rng):
    if rng.random() < 0.25:
        # names with parentheses glued to words, spelled in the text with and without white space around them
        pool = ['gpl (v2)', '(c) foo', 'gnu gpl (version 2)', 'mit', 'or', 'x(y)z', 'a (b) c', '(a)']
        names = [(n, i + 1) for i, n in enumerate(rng.sample(pool, rng.randint(1, 4)))]
        seq = []
        for n, _ in rng.sample(names, len(names)):
            seq.extend(gen.words_of(n))
            if rng.random() < 0.5:
                seq.append(rng.choice(['zz', 'or']))
        return names, (seq + ['q'] * 12)[:12]
    if rng.random() < 0.2:
        # a node with two continuations whose own suffix is the beginning of a third name: "p q b", "p q c z", "q c d" stored in
        # any order, the text runs through "p q c d" (every child of a node needs the failure state of that node, not what is
        # left of it after its sibling)
        p_, q, b, c, z, d = rng.sample(['x', 'a', 'b', 'c', 'd', 'z', 'gnu', 'gpl', '2.0'], 6)
        raw = [[p_, q, b], [p_, q, c, z], [q, c, d]] + ([[q, c]] if rng.random() < 0.3 else [])
        rng.shuffle(raw)
        names = [(' '.join(n_), i + 1) for i, n_ in enumerate(raw)]
        seq = [p_, q, c, d] + [rng.choice([p_, q, b, c, z, d, 'zz']) for _ in range(8)]
        if rng.random() < 0.5:
            seq = [rng.choice(['zz', p_])] + seq
        return names, seq[:12]
    words = ['a', 'b', 'c', 'd', 'e', 'f', 'g', '(', ')', 'İx', 'or']
    names = []
    k = rng.randint(2, 5)
    pos = 0
    seq = [rng.choice(words) for _ in range(12)]
    for i in range(k):
        ln = rng.randint(1, 4)
        names.append((' '.join(seq[pos:pos + ln]), i + 1))
        pos += max(1, ln - rng.randint(0, 2))
    return names, seq


def run(rep, tier, seed):
    le = imp()
    rng = random.Random(seed)
    rep.broken = []
    rep.compared = 0
    # (a) interval configurations
    ivals = [(s, e) for s in range(7) for e in range(s, 7)]
    maxk = 4 if tier == 'thorough' else 3
    configs = []
    for k in range(0, maxk + 1):
        for combo in itertools.combinations_with_replacement(range(len(ivals)), k):
            configs.append([(ivals[i][0], ivals[i][1], j + 1) for j, i in enumerate(combo)])
    shuffled = []
    for c in configs:
        d = list(c)
        rng.shuffle(d)
        shuffled.append(d)
    allc = configs + shuffled
    res = run_model([(13, [[s, e, i] for s, e, i in c]) for c in allc])
    for c, r in zip(allc, res):
        out = impl_filter(c)
        nontriv = any(overlap(a, b) for i, a in enumerate(c) for b in c[i + 1:])
        rep.case(('iv', tuple(c)), nontrivial=nontriv, sample={'intervals': c, 'kept': out} if len(c) == maxk and nontriv else None)
        rep.count('interval_configs')
        err = check_filter(c, out)
        if err:
            rep.violations.append({'key': 'filter', 'kind': 'intervals', 'intervals': c, 'what': err, 'text': repr(c)})
            continue
        rep.compared += 1
        got = [[s, e, [i]] for s, e, i in out]
        if got != r and len(rep.broken) < 5:
            rep.broken.append('correspondence C17/filter_overlapping: %r model %r implementation %r' % (c, r, got))
    # (b) tokenize over name sets x texts
    n = 4000 if tier == 'thorough' else 500
    reqs, metas = [], []
    for i in range(n):
        names, seq = chain_names(rng)
        ws = list(seq[:rng.randint(1, 12)])
        if rng.random() < 0.5:
            ws.insert(rng.randrange(len(ws) + 1), 'zz')
        text = gen.gen_ws(rng, 0, 1)
        for j, w in enumerate(ws):
            if j:
                text += gen.gen_ws(rng, 1, 3) if (w not in '()' and ws[j - 1] not in '()') else gen.gen_ws(rng, 0, 2)
            text += gen.vary_case(rng, w)
        text += gen.gen_ws(rng, 0, 1)
        allt = ''.join(n_ for n_, _ in names) + text
        if ''.join(c.lower() for c in allt) != allt.lower():
            continue
        ops = [[0, enc_str(nm), v] for nm, v in names] + [[5], [7, enc_str(text)]]
        reqs.append((12, ops))
        metas.append((names, text))
    res = run_model(reqs, chunk=500)
    for (names, text), r in zip(metas, res):
        err, enc = check_tokenize(names, text, le)
        occ = c16.brute(names, text)
        nontriv = any(overlap(a, b) for i, a in enumerate(occ) for b in occ[i + 1:])
        rep.case(('tok', tuple(names), text), nontrivial=nontriv, sample={'names': names, 'text': text})
        rep.count('tokenize_cases')
        if err:
            rep.violations.append({'key': 'tokenize', 'kind': 'tokenize', 'names': names, 'text': text, 'what': err})
            continue
        rep.compared += 1
        if r[-1] != enc and len(rep.broken) < 5:
            rep.broken.append('correspondence C17/tokenize: names %r text %r model %r implementation %r' % (names, text, r[-1], enc))
    # regression inputs of the repaired defects
    for names, text in [([('a b', 1), ('b c d', 2), ('d e f g', 3)], 'a b c d e f g'),
                        ([('GNU GPL', 1), ('GPL 2.0', 2)], 'GNU GPL 2.0 or mit'),
                        ([('GPL 2.0', 1), ('mit', 2)], 'mit or gpl    2.0'),
                        ([('mit', 1)], 'İ and mit')]:
        err, _ = check_tokenize(names, text, le)
        rep.case(('corpus', text), nontrivial=True)
        if err:
            rep.violations.append({'key': 'tokenize', 'kind': 'tokenize', 'names': names, 'text': text, 'what': err})


def replay(payload):
    le = imp()
    if payload.get('kind') == 'intervals':
        c = [tuple(x) for x in payload['intervals']]
        err = check_filter(c, impl_filter(c))
        return err is None, err or 'selection rules hold'
    names = [tuple(x) for x in payload['names']]
    err, _ = check_tokenize(names, payload['text'], le)
    return err is None, err or 'tokens are ordered, disjoint, exact slices and cover the text'
