"""
C02 — Valid expressions parse to the tree fixed by grammar and precedence.

Correspondence: Licensing.parse against the model's parse on (a) all token strings up to a length
bound over {known license, known exception, unknown word, and, or, with, (, )} and (b) expressions
derived from the grammar over generated symbol tables with random layout.
Spec oracle on the implementation: an independent recursive-descent parser over token kinds gives
the expected tree of every valid string; the generated expressions carry their expected tree by
construction.
"""
import random

from core import imp, run_model, enc_table, enc_str, make_licensing, dec_str
import gen
import parsing

RULE = ('exhaustive: all strings of length <= 5 (quick) / <= 6 (thorough) over an 8-letter token alphabet, default and '
        'simple tokenizer; generated: grammar-derived expressions (depth <= 3/4) over random tables (multi-word names, '
        'aliases with parentheses, names containing and/or/with, non-ASCII letters) with random case and Unicode white '
        'space, kept only when no known name occurs across an operand boundary; non-trivial = the string is valid and '
        'has at least one operator; distinct by text')
ASSUMPTIONS = ['final-sigma context of str.lower() is not modelled; generated texts whose per-character lower-casing '
               'differs from str.lower() are skipped and counted',
               'where a name ending in an operator word starts on the last word of a longer, earlier name, the longer name is '
               'the one recognised (selection rule of C17) and the operator word is read as an operator']


def run(rep, tier, seed):
    le = imp()
    rng = random.Random(seed)
    rep.broken = []
    rep.compared = 0
    # (a) exhaustive token strings
    maxlen = 6 if tier == 'thorough' else 5
    L = make_licensing(gen.TOKEN_TABLE)
    encT = enc_table(gen.TOKEN_TABLE)
    strings = list(gen.token_strings(maxlen))
    for simple in (False, True):
        reqs = [(4, [encT, 0, 0, 1 if simple else 0, enc_str(gen.render_tokens(t))]) for t in strings]
        res = run_model(reqs)
        for t, r in zip(strings, res):
            s = gen.render_tokens(t)
            got = parsing.parse_outcome(L, s, simple=simple)
            cls, exp = parsing.ref_classify(parsing.token_kinds_to_ref(t, simple))
            nontriv = cls == 'valid' and any(x in ('and', 'or', 'with') for x in t)
            rep.case(('tok', t, simple), nontrivial=nontriv,
                     sample={'text': s, 'simple': simple, 'class': cls} if nontriv and len(t) == 5 else None)
            rep.count('tokens_' + cls)
            rep.compared += 1
            if cls == 'valid':
                if got != [0, [exp]]:
                    rep.violations.append({'key': 'tree', 'kind': 'tokens', 'tokens': list(t), 'simple': simple, 'text': s,
                                           'what': 'valid expression did not parse to the expected tree: %r' % (got,)})
                    continue
            elif cls == 'invalid':
                if got[0] == 0:
                    rep.violations.append({'key': 'accepted-invalid', 'kind': 'tokens', 'tokens': list(t), 'simple': simple,
                                           'text': s, 'what': 'invalid expression accepted (%s)' % exp})
                    continue
            # the model must agree on the tree of valid strings and on rejection of the others
            if cls == 'valid' and r != got and len(rep.broken) < 5:
                rep.broken.append('correspondence C02/tokens: %r simple=%r model %r implementation %r' % (s, simple, r, got))
            if cls != 'valid' and (r[0] == 0) != (got[0] == 0) and len(rep.broken) < 5:
                rep.broken.append('correspondence C02/tokens (rejection): %r simple=%r model %r implementation %r' % (s, simple, r, got))
    rep.exhaustive = False
    # (b) grammar-generated expressions over random tables
    ntab = 400 if tier == 'thorough' else 60
    per = 40 if tier == 'thorough' else 25
    reqs, metas = [], []
    for _ in range(ntab):
        T = gen.gen_table(rng, maxn=4)
        try:
            Lt = make_licensing(T)
        except ValueError:
            rep.count('table_refused')
            continue
        eT = enc_table(T)
        for _ in range(per):
            text, tree, ok = parsing.gen_expression(rng, T, depth=rng.randint(1, 3 if tier == 'quick' else 4))
            if not ok:
                rep.count('gen_skipped_cross')
                continue
            if ''.join(c.lower() for c in text) != text.lower():
                rep.count('gen_skipped_sigma')
                continue
            reqs.append((4, [eT, 0, 0, 0, enc_str(text)]))
            metas.append((T, Lt, text, tree))
    # names with an operator word inside, next to names that start on the word before it; texts that follow
    # such a name through its operator word and then leave it: the operator word is an operator there
    fam = 800 if tier == 'thorough' else 150
    wp = ['gnu', 'gpl', 'lgpl', 'the', 'bsd', 'zlib', 'x11', 'cc', 'by']
    for _ in range(fam):
        a, b, c, d, e = rng.sample(wp, 5)
        op = rng.choice(['or', 'and', 'with'])
        long_name = ' '.join([a, b, op, c] if rng.random() < 0.7 else [d, a, b, op, c])
        T = [(long_name, [], False), ('%s %s' % (b, rng.choice(['2', '3', d])), [], False), ('mit', [], False)]
        if not gen.table_ok(T):
            continue
        prefix0 = long_name.split(' ' + op + ' ')[0]
        other0 = rng.choice(['mit', e, 'zz'])
        vp = gen.vary_name(rng, prefix0)                 # unknown words keep their spelling in the key
        vo = gen.vary_case(rng, other0)
        prefix = ' '.join(gen.words_of(vp))
        okey = 'mit' if other0 == 'mit' else vo
        vop = gen.vary_case(rng, op)
        sep = lambda: gen.gen_ws(rng, 1, 2)
        shapes = []
        if op in ('or', 'and'):
            tag = 1 if op == 'and' else 2
            P = [0, [0, [enc_str(prefix), 0]]]
            Q = [0, [0, [enc_str(okey), 0]]]
            shapes.append((vp + sep() + vop + sep() + vo, [tag, [P, Q]]))
            shapes.append(('mit ' + ('and' if op == 'or' else 'or') + ' (' + vp + sep() + vop + sep() + vo + ')',
                           [2 if op == 'and' else 1, [[0, [0, [enc_str('mit'), 0]]], [tag, [P, Q]]]]))
        else:
            shapes.append((vp + sep() + vop + sep() + vo + ' or mit',
                           [2, [[0, [1, [enc_str(prefix), 0], [enc_str(okey), 0]]], [0, [0, [enc_str('mit'), 0]]]]]))
        try:
            Lt = make_licensing(T)
        except ValueError:
            continue
        for text, tree in shapes:
            if ''.join(ch.lower() for ch in text) != text.lower():
                continue
            if gen.occurrences(T, gen.lw(text)) and any(i != 2 for _, _, i in gen.occurrences(T, gen.lw(text))):
                rep.count('family_skipped_cross')
                continue
            reqs.append((4, [enc_table(T), 0, 0, 0, enc_str(text)]))
            metas.append((T, Lt, text, tree))
    # a name ending in an operator word that starts on the last word of a longer name: in "K op x" the longer,
    # earlier name K is the one kept (the selection rule of C17), so the operator word is an operator
    for _ in range(fam):
        a, b, c, d = rng.sample(wp, 4)
        op = rng.choice(['or', 'and', 'with'])
        K = ' '.join([a, b, c])
        T = [(K, [], False), ('%s %s' % (c, op), [], False), ('mit', [], False)]
        if not gen.table_ok(T):
            continue
        try:
            Lt = make_licensing(T)
        except ValueError:
            continue
        vk = gen.vary_name(rng, K)
        other0 = rng.choice(['mit', d, 'zz'])
        vo = gen.vary_case(rng, other0)
        okey = 'mit' if other0 == 'mit' else vo
        vop = gen.vary_case(rng, op)
        KK = [0, [0, [enc_str(K), 0]]]
        Q = [0, [0, [enc_str(okey), 0]]]
        if op == 'with':
            tree = [0, [1, [enc_str(K), 0], [enc_str(okey), 0]]]
        else:
            tree = [1 if op == 'and' else 2, [KK, Q]]
        text = vk + gen.gen_ws(rng, 1, 2) + vop + gen.gen_ws(rng, 1, 2) + vo
        if ''.join(ch.lower() for ch in text) != text.lower():
            continue
        rep.count('family_name_ending_in_operator')
        reqs.append((4, [enc_table(T), 0, 0, 0, enc_str(text)]))
        metas.append((T, Lt, text, tree))
    # diverging continuations: two long names share the prefix "A op B" and continue differently; a text that follows
    # the prefix and then spells the known name "B C" is the valid expression "A op (B C)"
    wp2 = ['apache', '2.0', 'mit', 'gpl', 'zlib', 'png', 'bsd', 'cc', 'by', 'x11']
    for _ in range(fam):
        a, b, c, x, y, z = rng.sample(wp2, 6)
        op = rng.choice(['or', 'and'])
        nname = ' '.join([b, c] + ([y] if rng.random() < 0.3 else []))
        long1 = ' '.join([a, op, b, x])
        long2 = ' '.join([a, op] + nname.split() + [z, x])
        T = [('k-one', [long1], False), ('k-two', [long2], False), (nname.upper(), [], False), (a.upper(), [], False)]
        if rng.random() < 0.3:
            T = [T[1], T[0]] + T[2:]
        if not gen.table_ok(T):
            continue
        try:
            Lt = make_licensing(T)
        except ValueError:
            continue
        text = gen.vary_name(rng, ' '.join([a, op, nname]))
        if ''.join(ch.lower() for ch in text) != text.lower():
            continue
        tree = [1 if op == 'and' else 2, [[0, [0, [enc_str(a.upper()), 0]]], [0, [0, [enc_str(nname.upper()), 0]]]]]
        rep.count('family_diverging_continuations')
        reqs.append((4, [enc_table(T), 0, 0, 0, enc_str(text)]))
        metas.append((T, Lt, text, tree))
    # the same unknown license several times in one expression, each time in another letter case (own random stream):
    # every occurrence is an operand of its own with the spelling it has in the text
    rng2 = random.Random(seed * 7919 + 2)
    for _ in range(300 if tier == 'thorough' else 80):
        T = gen.gen_table(rng2, maxn=3)
        try:
            Lt = make_licensing(T)
        except ValueError:
            continue
        pool = rng2.sample(['foo', 'licenseref-bar', 'gp', 'q.r', 'exc', 'zz', 'later'], rng2.choice([1, 2, 2, 3]))
        text, tree, ok = parsing.gen_expression(rng2, T, depth=rng2.randint(1, 3), unknown_ratio=0.75, unknown_words=pool, case_unknown=True)
        if not ok or ''.join(ch.lower() for ch in text) != text.lower():
            continue
        rep.count('family_repeated_unknown_other_case')
        reqs.append((4, [enc_table(T), 0, 0, 0, enc_str(text)]))
        metas.append((T, Lt, text, tree))
    res = run_model(reqs)
    rep.trail = []
    for (T, Lt, text, tree), r in zip(metas, res):
        rep.trail.append({'table': T, 'text': text, 'expected': tree, 'kind': 'generated'})
        got = parsing.parse_outcome(Lt, text)
        rep.case(('gen', text, repr(T)), nontrivial=(tree[0] != 0),
                 sample={'table': T, 'text': text, 'expected': str(__import__('core').build_expr(tree))})
        rep.count('generated')
        rep.compared += 1
        if got != [0, [tree]]:
            rep.violations.append({'key': 'gen-tree', 'kind': 'generated', 'table': T, 'text': text, 'expected': tree, '_at': len(rep.trail) - 1,
                                   'what': 'grammar-derived expression did not parse to its tree: %r' % (got,)})
        elif r != got and len(rep.broken) < 5:
            rep.broken.append('correspondence C02/generated: table %r text %r model %r implementation %r' % (T, text, r, got))


def replay(payload):
    le = imp()
    if payload.get('kind') == 'tokens':
        t = tuple(payload['tokens'])
        simple = payload.get('simple', False)
        L = make_licensing(gen.TOKEN_TABLE)
        got = parsing.parse_outcome(L, gen.render_tokens(t), simple=simple)
        cls, exp = parsing.ref_classify(parsing.token_kinds_to_ref(t, simple))
        ok = (got == [0, [exp]]) if cls == 'valid' else (got[0] != 0 if cls == 'invalid' else True)
        return ok, 'class %s outcome %r' % (cls, got)
    T = [tuple(x) for x in payload['table']]
    L = make_licensing([(k, a, e) for k, a, e in T])
    got = parsing.parse_outcome(L, payload['text'])
    return got == [0, [payload['expected']]], 'outcome %r' % (got,)
