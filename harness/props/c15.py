"""
C15 — Bundled SPDX and ScanCode tables load and recognise every name.

Tie: the shipped index is regenerated into coq/gen/Index.v on every run and Tie/Index.v recomputes,
inside the kernel, that both bundled tables build, which keys are known and that deprecated /
SPDX-less entries are unknown. Correspondence: build_licensing / build_spdx_licensing on synthetic
indexes (deprecated flags, missing keys, aliases, missing exception fields, clashes) against the
model. Spec oracle on the implementation: a sweep over every name of both bundled tables (original,
lower and upper case): it parses to the entry's license, renders as the canonical key, validates
without errors (an exception: non-strictly alone, strictly on the right of WITH), carries the
exception flag of the index; deprecated and SPDX-less entries are unknown; plus random compound
expressions over the bundled names.
"""
import json
import random

from core import imp, run_model, enc_str, enc_expr, outcome_of, enc_exception
import gen

RULE = ('exhaustive sweep: every key of the 2165 non-deprecated ScanCode entries and every key / alias of the 2046 SPDX entries '
        'of the shipped index in 3 letter cases; 300 (quick) / 3000 (thorough) random compound expressions over them; seeded '
        'synthetic indexes of 1-6 entries with deprecated / missing spdx key / aliases / missing is_exception / clashing '
        'names; non-trivial = every case; distinct by (table, name) / index')
ASSUMPTIONS = ['"validates without errors" for an exception entry means: non-strictly on its own, strictly on the right of a WITH',
               'the shipped index is ASCII (asserted by the translator)']


def sweep(L, entries, le, rep, label):
    """entries: list of (canonical key, [names], is_exception)."""
    base = None
    for key, names, exc in entries:
        if not exc and base is None:
            base = key
    for key, names, exc in entries:
        for n in names:
            for v in (n, n.lower(), n.upper()):
                if v.lower() != n.lower():
                    continue
                rep.case((label, v), nontrivial=True, sample={'table': label, 'name': v, 'key': key} if len(rep.samples) < 4 else None)
                rep.count(label + '_names')
                err = None
                try:
                    e = L.parse(v)
                    if not isinstance(e, le.LicenseSymbol) or e.key != key or bool(e.is_exception) != exc:
                        err = 'parses to %r' % (e,)
                    elif str(e) != key:
                        err = 'renders as %r' % str(e)
                    else:
                        if exc:
                            i1 = L.validate(v, strict=False)
                            i2 = L.validate('%s WITH %s' % (base, v), strict=True)
                            if i1.errors or i2.errors or i2.normalized_expression != '%s WITH %s' % (base, key):
                                err = 'exception does not validate: %r %r' % (i1.errors, i2.errors)
                        else:
                            i1 = L.validate(v)
                            if i1.errors or i1.normalized_expression != key:
                                err = 'does not validate: %r' % (i1.errors,)
                        if L.unknown_license_keys(v):
                            err = 'listed as unknown'
                except Exception as ex:   # noqa
                    err = 'raised %s: %s' % (type(ex).__name__, ex)
                if err:
                    rep.violations.append({'key': 'sweep', 'kind': 'name', 'table': label, 'text': v, 'expected': key,
                                           'what': '%s name %r (entry %r): %s' % (label, v, key, err)})


def synth_index(rng):
    words = ['mit', 'gpl-2.0', 'GPL-2.0', 'bsd', 'apache-2.0', 'cpe', 'lgpl', 'x11']
    if rng.random() < 0.2:
        # letters whose case folding is not their lower-casing
        words = words + ['gruß-lizenz', 'maß-ausnahme', 'ﬁle-lic']
    idx = []
    for _ in range(rng.randint(1, 6)):
        e = {}
        if rng.random() < 0.95:
            e['license_key'] = rng.choice(words) + rng.choice(['', '', '-x', '+'])
        if rng.random() < 0.25 and e.get('license_key'):
            # the same key in both tables: the two Licensings then differ only by their aliases
            e['spdx_license_key'] = e['license_key']
        elif rng.random() < 0.8:
            e['spdx_license_key'] = rng.choice([w.upper() for w in words] + ['LicenseRef-a']) + rng.choice(['', '', '-only'])
        if rng.random() < 0.5:
            e['other_spdx_license_keys'] = [rng.choice(words) + '-alias' + rng.choice(['', '2']) for _ in range(rng.randint(0, 2))]
            if rng.random() < 0.25:
                # names with parentheses, glued to a word or not (one spelling per name: the two spellings of one name are the
                # same words)
                e['other_spdx_license_keys'].append(rng.choice(words) + rng.choice([' (v2)', '(x)', ' (3 clause)']))
            if e['other_spdx_license_keys'] and rng.random() < 0.4:
                # the same alias again in another spelling, or a blank one: harmless within one entry
                a0 = e['other_spdx_license_keys'][0]
                e['other_spdx_license_keys'].append(rng.choice([a0.upper(), a0, '', '  ', ' ' + a0 + ' ']))
        elif rng.random() < 0.2:
            e['other_spdx_license_keys'] = None     # null, as the shipped file has for other optional fields
        if rng.random() < 0.8:
            e['is_exception'] = rng.random() < 0.3
        if rng.random() < 0.7:
            e['is_deprecated'] = rng.random() < 0.3
        idx.append(e)
    return idx


def synth_names(sidx, spdx):
    """Independent reading of the index format: (canonical key, names, exception flag) of every active entry; names that
    two entries share (ignoring case) are left out."""
    ents = []
    for e in sidx:
        if e.get('is_deprecated', False):
            continue
        if spdx:
            if not e.get('spdx_license_key'):
                continue
            key = e['spdx_license_key']
            names = [key] + [' '.join(a.split()) for a in e.get('other_spdx_license_keys', []) or [] if a and a.strip()]
        else:
            key = e.get('license_key', '')
            names = [key]
        ents.append((key, names, bool(e.get('is_exception', ''))))
    owners = {}
    for key, names, exc in ents:
        for n in set(x.lower() for x in names):
            owners.setdefault(n, []).append(key)
    return [(key, [n for n in dict.fromkeys(names) if len(owners[n.lower()]) == 1], exc) for key, names, exc in ents]


def sweep_synth(L, ents, le):
    for key, names, exc in ents:
        for n in names:
            for v in (n, n.lower(), n.upper()):
                if v.lower() != n.lower():
                    continue       # not a case variant (upper-casing a letter like U+00DF changes the word)
                try:
                    e = L.parse(v)
                    if not isinstance(e, le.LicenseSymbol) or e.key != key or bool(e.is_exception) != exc or str(e) != key:
                        return 'name %r of entry %r parses to %r' % (v, key, e)
                    if L.validate(v, strict=False).errors or L.unknown_license_keys(v):
                        return 'name %r of entry %r does not validate' % (v, key)
                except Exception as ex:   # noqa
                    return 'name %r of entry %r raised %s: %s' % (v, key, type(ex).__name__, ex)
    return None


def check_synth_names(sidx, le):
    """Both Licensings of one synthetic index, built and used in the same process, recognise their own names."""
    try:
        SC = le.build_licensing(sidx)
        SP = le.build_spdx_licensing(sidx)
    except Exception:   # noqa
        return None
    for L, spdx in ((SC, False), (SP, True), (SC, False)):
        err = sweep_synth(L, synth_names(sidx, spdx), le)
        if err:
            return ('spdx: ' if spdx else 'scancode: ') + err
    return None


def enc_index(idx):
    return [[enc_str(e.get('license_key', '') or ''), enc_str(e.get('spdx_license_key', '') or ''),
             [enc_str(a) for a in (e.get('other_spdx_license_keys', []) or [])],
             1 if e.get('is_exception', '') else 0, 1 if e.get('is_deprecated', False) else 0] for e in idx]


def table_of(L):
    return [[enc_str(k), [enc_str(a) for a in (s.aliases or [])], 1 if s.is_exception else 0] for k, s in L.known_symbols.items()]


def edit_returned_index(le):
    """A caller edits the list it got from get_license_index() in place (as one does to derive an index of one's own): the
    ready-made Licensings are built from the bundled file, not from the caller's copy."""
    got = le.get_license_index()
    for e in got[:60]:
        e['is_deprecated'] = not e.get('is_deprecated', False)
        e['is_exception'] = not e.get('is_exception', False)
        e['license_key'] = 'edited-' + e.get('license_key', '')
    del got[60:160]


def two_files_one_path(le, A, B):
    """Two index files written one after the other to the same path: each load reflects the file as it is then."""
    import os
    from core import BUILD
    path = os.path.join(BUILD, 'c15_index_%d.json' % os.getpid())
    try:
        out = []
        for sidx in (A, B):
            with open(path, 'w') as f:
                json.dump(sidx, f)
            want = list(dict.fromkeys(e.get('license_key', '') for e in sidx if not e.get('is_deprecated', False)))
            g = outcome_of(lambda: list(le.get_scancode_licensing(path).known_symbols), lambda x: x)
            h = outcome_of(lambda: [e.get('license_key', '') for e in le.get_license_index(path)], lambda x: x)
            if g[0] == 0 and g[1] != want:
                out.append('get_scancode_licensing(path) knows %r, the file at that path lists %r' % (g[1][:6], want[:6]))
            if h[0] == 0 and h[1] != [e.get('license_key', '') for e in sidx]:
                out.append('get_license_index(path) does not return the entries of the file at that path')
            # both ready-made constructors given the path: what the builders make of the entries of that file
            for getter, builder in (('get_scancode_licensing', 'build_licensing'), ('get_spdx_licensing', 'build_spdx_licensing')):
                a = outcome_of(lambda: list(getattr(le, getter)(path).known_symbols), lambda x: x)
                b = outcome_of(lambda: list(getattr(le, builder)(json.loads(json.dumps(sidx))).known_symbols), lambda x: x)
                if a != b:
                    out.append('%s(path) gives %r, %s(entries of the file at that path) gives %r'
                               % (getter, a[1][:6] if a[0] == 0 else a, builder, b[1][:6] if b[0] == 0 else b))
        return out
    finally:
        if os.path.exists(path):
            os.remove(path)


def run(rep, tier, seed):
    le = imp()
    rng = random.Random(seed)
    rep.broken = []
    rep.compared = 0
    with open(le.vendored_scancode_licensedb_index_location) as f:
        idx = json.load(f)        # the bundled file itself, read independently of the library's loader
    if idx != le.get_license_index():
        rep.violations.append({'key': 'loader', 'kind': 'index-loader', 'text': 'get_license_index()',
                               'what': 'get_license_index() does not return the entries of the bundled file'})
    edit_returned_index(le)
    SC = le.get_scancode_licensing()
    SP = le.get_spdx_licensing()
    sc_entries = [(e['license_key'], [e['license_key']], bool(e.get('is_exception'))) for e in idx if not e.get('is_deprecated')]
    sp_entries = [(e['spdx_license_key'], [e['spdx_license_key']] + list(e.get('other_spdx_license_keys') or []), bool(e.get('is_exception')))
                  for e in idx if e.get('spdx_license_key') and not e.get('is_deprecated')]
    sweep(SC, sc_entries, le, rep, 'scancode')
    sweep(SP, sp_entries, le, rep, 'spdx')
    # deprecated / SPDX-less entries are unknown
    sc_known = {k for k, _, _ in sc_entries}
    sp_names = {n.lower() for _, ns, _ in sp_entries for n in ns}
    for e in idx:
        if e.get('is_deprecated'):
            k = e['license_key']
            rep.case(('deprecated', k), nontrivial=True)
            if k in sc_known:
                continue
            if not SC.unknown_license_keys(k):
                rep.violations.append({'key': 'deprecated', 'kind': 'name', 'table': 'scancode', 'text': k,
                                       'what': 'deprecated key %r is known' % k})
        if (not e.get('spdx_license_key') or e.get('is_deprecated')):
            k = e.get('spdx_license_key') or e['license_key']
            if k.lower() in sp_names:
                continue
            rep.case(('spdx-less', k), nontrivial=True)
            if not SP.unknown_license_keys(k):
                rep.violations.append({'key': 'deprecated', 'kind': 'name', 'table': 'spdx', 'text': k,
                                       'what': 'entry %r without a live SPDX key is known to the SPDX table' % k})
    # random compound expressions
    n = 3000 if tier == 'thorough' else 300
    for L, entries, label in ((SC, sc_entries, 'scancode'), (SP, sp_entries, 'spdx')):
        lic = [e for e in entries if not e[2]]
        exc = [e for e in entries if e[2]]
        for _ in range(n):
            parts, keys = [], []
            for i in range(rng.randint(2, 5)):
                a = rng.choice(lic)
                name = rng.choice(a[1])
                name = rng.choice([name, name.lower(), name.upper()])
                if rng.random() < 0.25:
                    x = rng.choice(exc)
                    xn = rng.choice(x[1])
                    parts.append('%s with %s' % (name, xn))
                    keys += [a[0], x[0]]
                else:
                    parts.append(name)
                    keys.append(a[0])
            op = rng.choice([' and ', ' OR '])
            text = op.join(parts)
            rep.case((label, text), nontrivial=True)
            rep.count(label + '_compounds')
            try:
                got = L.license_keys(text, unique=False)
                info = L.validate(text)
                bad = got != keys or info.errors
            except Exception as ex:   # noqa
                bad = True
                got = repr(ex)
            if bad:
                rep.violations.append({'key': 'compound', 'kind': 'name', 'table': label, 'text': text,
                                       'what': 'compound over bundled names: keys %r, expected %r' % (got, keys)})
    # two synthetic index files at one path
    for _ in range(20 if tier == 'thorough' else 5):
        A, B = synth_index(rng), synth_index(rng)
        rep.count('two_files_one_path')
        for what in two_files_one_path(le, A, B)[:1]:
            rep.violations.append({'key': 'index-file', 'kind': 'index-file', 'A': A, 'B': B, 'text': 'two index files at one path', 'what': what})
    # synthetic indexes against the model
    m = 2000 if tier == 'thorough' else 300
    reqs, metas = [], []
    for _ in range(m):
        sidx = synth_index(rng)
        reqs.append((19, enc_index(sidx)))
        metas.append(sidx)
    res = run_model(reqs)
    for sidx, r in zip(metas, res):
        g1 = outcome_of(lambda: table_of(le.build_licensing(sidx)))
        g2 = outcome_of(lambda: table_of(le.build_spdx_licensing(sidx)))
        rep.case(('synthetic', json.dumps(sidx, sort_keys=True)), nontrivial=True,
                 sample={'index': sidx, 'scancode': g1[0], 'spdx': g2[0]} if len(rep.samples) < 6 else None)
        rep.count('synthetic')
        # an index of the shipped format is accepted or refused for what it says (ValueError, ExpressionError): nothing else escapes
        for g, fn in ((g1, 'build_licensing'), (g2, 'build_spdx_licensing')):
            if g[0] >= 4:
                try:
                    getattr(le, fn)(sidx)
                    exn = 'nothing the second time'
                except Exception as ex:   # noqa
                    exn = '%s: %s' % (type(ex).__name__, ex)
                rep.violations.append({'key': 'synthetic-crash', 'kind': 'index-build', 'index': sidx, 'text': json.dumps(sidx),
                                       'what': '%s raised %s' % (fn, exn)})
        if g1[0] >= 4 or g2[0] >= 4:
            continue
        # independent expectation: which keys are known
        want_sc = [e.get('license_key', '') for e in sidx if not e.get('is_deprecated', False)]
        if g1[0] == 0:
            if [x[0] for x in g1[1]] != [enc_str(k) for k in dict.fromkeys(want_sc)]:
                rep.violations.append({'key': 'synthetic', 'kind': 'index', 'index': sidx, 'text': json.dumps(sidx),
                                       'what': 'build_licensing known keys %r, expected %r' % (g1[1], want_sc)})
                continue
        if g1[0] == 0 and g2[0] == 0:
            rep.count('synthetic_names_swept')
            err = check_synth_names(sidx, le)
            if err:
                rep.violations.append({'key': 'synthetic-names', 'kind': 'index-names', 'index': sidx, 'text': json.dumps(sidx),
                                       'what': 'Licensings built from a synthetic index: ' + err})
                continue
        # independent expectation: the SPDX table builds exactly when it is unambiguous (rule of C14)
        from props import c14
        spdx_T = [(e.get('spdx_license_key', ''), [a for a in (e.get('other_spdx_license_keys', []) or [])], bool(e.get('is_exception', '')))
                  for e in sidx if e.get('spdx_license_key') and not e.get('is_deprecated', False)]
        if spdx_T and all(' '.join(k.split()) == k for k, _, _ in spdx_T):
            want_ok = c14.rule(spdx_T)
            got_ok = (g2[0] == 0)
            if want_ok != got_ok and g2[0] in (0, 3):
                rep.violations.append({'key': 'synthetic-build', 'kind': 'index-build', 'index': sidx, 'text': json.dumps(sidx),
                                       'what': 'build_spdx_licensing accepted=%r but the table is %s' % (got_ok, 'unambiguous' if want_ok else 'ambiguous')})
                continue
        rep.compared += 1
        def canon(o):
            if o[0] == 2:
                return [2, [o[1][0]]]
            return o
        if [canon(g1), canon(g2)] != [canon(r[0]), canon(r[1])] and len(rep.broken) < 5:
            rep.broken.append('correspondence C15: index %r model %r implementation %r' % (sidx, r, [g1, g2]))


def replay(payload):
    le = imp()
    if payload.get('kind') == 'index-loader':
        with open(le.vendored_scancode_licensedb_index_location) as f:
            idx = json.load(f)
        edit_returned_index(le)
        ok = idx == le.get_license_index()
        return ok, 'get_license_index() %s the bundled file after a caller edited an earlier result' % ('returns' if ok else 'does not return')
    if payload.get('kind') == 'index-file':
        bad = two_files_one_path(le, payload['A'], payload['B'])
        return not bad, bad[0] if bad else 'each load reflects the file'
    if payload.get('kind') == 'name':
        edit_returned_index(le)
        L = le.get_scancode_licensing() if payload['table'] == 'scancode' else le.get_spdx_licensing()
        v, key = payload['text'], payload.get('expected')
        try:
            e = L.parse(v)
            if key is not None and isinstance(e, le.LicenseSymbol) and (e.key != key or str(e) != key):
                return False, 'parses to %r' % (e,)
            if key is not None and isinstance(e, le.LicenseSymbol):
                with open(le.vendored_scancode_licensedb_index_location) as f:
                    ref = json.load(f)
                kk = 'license_key' if payload['table'] == 'scancode' else 'spdx_license_key'
                flags = [bool(x.get('is_exception')) for x in ref if x.get(kk) == key and not x.get('is_deprecated')]
                if flags and bool(e.is_exception) != flags[0]:
                    return False, 'parses to %r, the index flags it %r' % (e, flags[0])
                if L.unknown_license_keys(v) or L.validate(v, strict=False).errors:
                    return False, 'listed as unknown / does not validate'
        except Exception as ex:   # noqa
            return False, repr(ex)
        return True, 'parses to %s' % e
    if payload.get('kind') == 'index-build':
        from props import c14
        sidx = payload['index']
        spdx_T = [(e.get('spdx_license_key', ''), [a for a in (e.get('other_spdx_license_keys', []) or [])], bool(e.get('is_exception', '')))
                  for e in sidx if e.get('spdx_license_key') and not e.get('is_deprecated', False)]
        for fn in ('build_licensing', 'build_spdx_licensing'):
            try:
                getattr(le, fn)(sidx)
            except (ValueError, le.ExpressionError):
                pass
            except Exception as ex:   # noqa
                return False, '%s raised %s: %s' % (fn, type(ex).__name__, ex)
        if payload.get('key') == 'synthetic-crash':
            return True, 'both builders accept or refuse the index'
        try:
            le.build_spdx_licensing(sidx)
            got = True
        except ValueError:
            got = False
        return got == c14.rule(spdx_T), 'build accepted=%r, unambiguous=%r' % (got, c14.rule(spdx_T))
    if payload.get('kind') == 'index':
        sidx = payload['index']
        want_sc = [e.get('license_key', '') for e in sidx if not e.get('is_deprecated', False)]
        g1 = outcome_of(lambda: table_of(le.build_licensing(sidx)))
        ok = g1[0] != 0 or [x[0] for x in g1[1]] == [enc_str(k) for k in dict.fromkeys(want_sc)]
        return ok, 'build_licensing knows %r, the index lists %r' % (g1[1] if g1[0] == 0 else g1, want_sc)
    if payload.get('kind') == 'index-names':
        err = check_synth_names(payload['index'], le)
        return err is None, err or 'every name of the synthetic index is recognised'
    return True, 'nothing to replay'
