"""
C04 — Known keys and aliases are recognised whatever the case and spacing.

Correspondence: Licensing.parse against the model for every name of generated tables, in case /
white-space variants, alone and inside operator contexts.
Spec oracle on the implementation: the variant resolves to the symbol of its entry and renders with
the canonical key, provided no longer known name extends beyond the operand; operator words inside
longer words or inside recognised multi-word names are not operators; the longest match wins,
the leftmost on a tie.
"""
import random

from core import imp, run_model, enc_table, enc_str, make_licensing, dec_str, build_expr
import gen
import parsing

RULE = ('every name (key and alias) of seeded tables x 6 (quick) / 40 (thorough) case / white-space variants x 12 operator '
        'contexts; tables have single- and multi-word keys, aliases (with parentheses), names containing and / or / with and '
        'operator words inside longer words; a case is kept only when no known name occurs across the operand boundary; '
        'distinct by (table, text)')
ASSUMPTIONS = ['texts whose per-character lower-casing differs from str.lower() (final sigma) are skipped and counted']

OTHER = ('zzq', False)


def contexts(name_text):
    """(text, builder of the expected tree from the operand tree X)"""
    o = 'zzq'
    return [
        ('%s', lambda X, U: X),
        ('  %s  ', lambda X, U: X),
        ('(%s)', lambda X, U: X),
        ('( %s )', lambda X, U: X),
        ('%s and ' + o, lambda X, U: [1, [X, U]]),
        (o + ' OR %s', lambda X, U: [2, [U, X]]),
        (o + ' and (%s)', lambda X, U: [1, [U, X]]),
        ('%s or ' + o + ' and ' + o, lambda X, U: [2, [X, [1, [U, U]]]]),
        ('(' + o + ' or %s) and ' + o, lambda X, U: [1, [[2, [U, X]], U]]),
        (o + ' with %s', None),      # WITH: operand on the right
        ('%s WITH ' + o, None),      # WITH: operand on the left
        (o + ' and %s and ' + o, lambda X, U: [1, [U, X, U]]),
    ]


def paren_collision(T, le):
    """Returns (key, text) when an alias of the table does not resolve to the license that declares it, None otherwise."""
    try:
        L = make_licensing(T, form='sym')
    except ValueError:
        return None          # the table is refused as ambiguous: nothing to resolve
    for key, als, _ in T:
        for a in als:
            try:
                got = L.parse(a)
            except le.ExpressionError as ex:
                return ('recognise', 'alias %r of %r does not parse: %s' % (a, key, ex))
            if not isinstance(got, le.LicenseSymbol) or got.key != key:
                others = [k for k, als2, _ in T if k != key and any(gen.lw(x) == gen.lw(a) for x in als2)]
                if others and isinstance(got, le.LicenseSymbol) and got.key in others:
                    return ('alias-parenthesis-spacing-collision',
                            'the table %r is accepted, and the alias %r of %r resolves to %r' % (T, a, key, got.key))
                return ('recognise', 'alias %r of %r resolves to %r' % (a, key, got))
    return None


def run(rep, tier, seed):
    le = imp()
    rng = random.Random(seed)
    rep.broken = []
    rep.compared = 0
    rep.trail = []      # (table, text) of every case so far: other Licensing objects are the only shared context
    ntab = 120 if tier == 'thorough' else 30
    nvar = 40 if tier == 'thorough' else 6
    fixed = [
        [('GPL 2.0', ['GNU GPL v2', 'GNU (GPL) 2'], False), ('mit', [], False), ('GPL-2.0 or later', ['gpl2+'], False),
         ('Classpath', ['cp exception'], True)],
        [('android', [], False), ('orgpl', [], False), ('gpl with classpath', [], False), ('and more', ['more and'], False)],
        [('gnu gpl', [], False), ('gpl 2.0', [], False), ('gnu gpl 2.0', [], False)],
        # letters whose case folding is not their lower-casing (stored and scanned words must be normalised alike)
        [('D-FSL-1.0', ['Lizenz gemäß D-FSL', 'Freie Software (gemäß D-FSL) Lizenz'], False), ('Maß-1.0', [], False), ('mit', [], False),
         ('ﬁle-lic', ['ſmall print'], True)],
    ]
    tables = fixed + [gen.gen_table(rng, maxn=4) for _ in range(ntab)]
    U = [0, [0, [enc_str('zzq'), 0]]]
    reqs, metas = [], []
    for T in tables:
        if not gen.table_ok(T):
            continue
        L = make_licensing(T)
        eT = enc_table(T)
        for name, idx in gen.names_of(T):
            k, _, ex = T[idx]
            X = [0, [0, [enc_str(k), 1 if ex else 0]]]
            sx = [enc_str(k), 1 if ex else 0]
            for _ in range(nvar):
                v = gen.vary_name(rng, name)
                for ctx, build in contexts(v):
                    text = ctx % v
                    if ''.join(c.lower() for c in text) != text.lower():
                        rep.count('skipped_sigma')
                        continue
                    # proviso: no known name may occur across the operand boundary
                    lwords = gen.lw(text)
                    vw = gen.lw(v)
                    st = None
                    for s in range(len(lwords) - len(vw) + 1):
                        if lwords[s:s + len(vw)] == vw:
                            st = s
                            break
                    cross = False
                    for (s, e, i) in gen.occurrences(T, lwords):
                        if not (st <= s and e <= st + len(vw)):
                            cross = True
                    if cross:
                        rep.count('skipped_cross')
                        continue
                    if build is None:
                        if ctx.startswith('%s'):
                            exp = [0, [1, sx, [enc_str('zzq'), 0]]]
                        else:
                            exp = [0, [1, [enc_str('zzq'), 0], sx]]
                    else:
                        exp = build(X, U)
                    reqs.append((4, [eT, 0, 0, 0, enc_str(text)]))
                    metas.append((T, L, text, exp, k))
    res = run_model(reqs)
    for (T, L, text, exp, k), r in zip(metas, res):
        rep.trail.append({'table': T, 'text': text, 'expected': None})
        got = parsing.parse_outcome(L, text)
        rep.case((repr(T), text), nontrivial=True, sample={'table': T, 'text': text, 'expected': str(build_expr(exp))})
        rep.count('cases')
        if got != [0, [exp]]:
            rep.violations.append({'key': 'recognise', 'kind': 'text', 'table': T, 'text': text, 'expected': exp, '_at': len(rep.trail) - 1,
                                   'what': 'known name not resolved to its symbol: %r' % (got,)})
            continue
        rep.compared += 1
        if r != got and len(rep.broken) < 5:
            rep.broken.append('correspondence C04: table %r text %r model %r implementation %r' % (T, text, r, got))
    # chains of overlapping names: L ends with the first words of M, M contains an operator word and ends
    # with a known name S; in "L <rest of M>" the longest (leftmost on a tie) match L wins, the operator word
    # of M becomes an operator and S stands as a complete operand
    nchain = 600 if tier == 'thorough' else 120
    wpool = ['apache', '2.0', 'mit', 'gpl', 'zlib', 'png', 'bsd', 'cc', 'by', 'x11']
    reqs2, metas2 = [], []
    for _ in range(nchain):
        w = rng.sample(wpool, 6)
        op1, op2 = rng.choice(['or', 'and', 'with']), rng.choice(['or', 'and'])
        shared = w[2:3] if rng.random() < 0.7 else w[2:4]
        tail = [w[4]] if rng.random() < 0.7 else [w[4], w[5]]
        Lname = ' '.join(w[0:2] + [op1] + shared)
        Mname = ' '.join(shared + [op2] + tail)
        Sname = ' '.join(tail)
        if len(Lname) < len(Mname):
            continue
        T = [('k-long', [Lname], False), ('k-mid', [Mname], False), (Sname.upper(), [], False)]
        if not gen.table_ok(T):
            continue
        text = gen.vary_name(rng, Lname + ' ' + op2 + ' ' + Sname)
        if ''.join(c.lower() for c in text) != text.lower():
            continue
        # "longest" is measured on the text: keep the case only when the span of L is not shorter than the span of M
        from props import c16
        occ = {v: (a, b) for a, b, _s, v in c16.brute([(Lname, 'L'), (Mname, 'M')], text)}
        if 'L' not in occ or 'M' not in occ or (occ['L'][1] - occ['L'][0]) < (occ['M'][1] - occ['M'][0]):
            rep.count('overlap_chains_skipped')
            continue
        X1 = [0, [0, [enc_str('k-long'), 0]]]
        X2 = [0, [0, [enc_str(Sname.upper()), 0]]]
        exp = [1 if op2 == 'and' else 2, [X1, X2]]
        reqs2.append((4, [enc_table(T), 0, 0, 0, enc_str(text)]))
        metas2.append((T, text, exp))
    res2 = run_model(reqs2)
    for (T, text, exp), r in zip(metas2, res2):
        L = make_licensing(T)
        rep.trail.append({'table': T, 'text': text, 'expected': None})
        got = parsing.parse_outcome(L, text)
        rep.case((repr(T), text), nontrivial=True, sample={'table': T, 'text': text, 'expected': str(build_expr(exp))})
        rep.count('overlap_chains')
        if got != [0, [exp]]:
            rep.violations.append({'key': 'recognise', 'kind': 'text', 'table': T, 'text': text, 'expected': exp, '_at': len(rep.trail) - 1,
                                   'what': 'overlapping names: the longest (leftmost) match must win and the following '
                                           'known name must be resolved: %r' % (got,)})
            continue
        rep.compared += 1
        if r != got and len(rep.broken) < 5:
            rep.broken.append('correspondence C04/chain: table %r text %r model %r implementation %r' % (T, text, r, got))
    # diverging continuations: two long names share the prefix "A op B" and continue differently (the first stored with a
    # word that leads nowhere, the second with the first word of the known name "B C ..."); a text that follows the
    # shared prefix and then spells "B C" must fall back to that name: the failure link of the later child matters
    nfl = 400 if tier == 'thorough' else 100
    reqs3, metas3 = [], []
    for _ in range(nfl):
        a, b, c, x, y, z = rng.sample(wpool, 6)
        op = rng.choice(['or', 'and'])
        nname = ' '.join([b, c] + ([y] if rng.random() < 0.3 else []))
        long1 = ' '.join([a, op, b, x])
        long2 = ' '.join([a, op] + nname.split() + [z, x])
        entries = [('k-one', [long1], False), ('k-two', [long2], False), (nname.upper(), [], False), (a.upper(), [], False)]
        if rng.random() < 0.3:
            entries = [entries[1], entries[0]] + entries[2:]
        T = entries
        if not gen.table_ok(T):
            continue
        text = gen.vary_name(rng, ' '.join([a, op, nname]))
        if ''.join(ch.lower() for ch in text) != text.lower():
            continue
        exp = [1 if op == 'and' else 2, [[0, [0, [enc_str(a.upper()), 0]]], [0, [0, [enc_str(nname.upper()), 0]]]]]
        reqs3.append((4, [enc_table(T), 0, 0, 0, enc_str(text)]))
        metas3.append((T, text, exp))
    res3 = run_model(reqs3)
    for (T, text, exp), r in zip(metas3, res3):
        L = make_licensing(T)
        rep.trail.append({'table': T, 'text': text, 'expected': None})
        got = parsing.parse_outcome(L, text)
        rep.case((repr(T), text), nontrivial=True, sample={'table': T, 'text': text, 'expected': str(build_expr(exp))})
        rep.count('diverging_continuations')
        if got != [0, [exp]]:
            rep.violations.append({'key': 'recognise', 'kind': 'text', 'table': T, 'text': text, 'expected': exp, '_at': len(rep.trail) - 1,
                                   'what': 'a known name after the shared prefix of two longer names is not resolved: %r' % (got,)})
            continue
        rep.compared += 1
        if r != got and len(rep.broken) < 5:
            rep.broken.append('correspondence C04/fail-link: table %r text %r model %r implementation %r' % (T, text, r, got))
    # interrupted names: a long name "A op S" whose tail S is a known name of its own; in "A <foreign words> op S" the long name
    # does not occur, the operator word is an operator and S stands as a complete operand after it
    nint = 400 if tier == 'thorough' else 100
    reqs4, metas4 = [], []
    for _ in range(nint):
        w = rng.sample(wpool, 6)
        op = rng.choice(['or', 'and', 'with'])
        head = w[0:1] if rng.random() < 0.6 else w[0:2]
        tail = [w[2]] if rng.random() < 0.5 else [w[2], w[3]]
        foreign = [rng.choice(['v2', 'zz', 'only', 'my'])] + (['own'] if rng.random() < 0.3 else [])
        long_name = ' '.join(head + [op] + tail)
        Sname = ' '.join(tail)
        T = [('k-long', [long_name], False), (Sname.upper(), [], op == 'with')]
        if not gen.table_ok(T):
            continue
        left = ' '.join(head + foreign)
        text = left + gen.gen_ws(rng, 1, 2) + gen.vary_case(rng, op) + gen.gen_ws(rng, 1, 2) + gen.vary_name(rng, Sname)
        if ''.join(ch.lower() for ch in text) != text.lower():
            continue
        if op == 'with':
            exp = [0, [1, [enc_str(left), 0], [enc_str(Sname.upper()), 1]]]
        else:
            exp = [1 if op == 'and' else 2, [[0, [0, [enc_str(left), 0]]], [0, [0, [enc_str(Sname.upper()), 0]]]]]
        reqs4.append((4, [enc_table(T), 0, 0, 0, enc_str(text)]))
        metas4.append((T, text, exp))
    res4 = run_model(reqs4)
    for (T, text, exp), r in zip(metas4, res4):
        L = make_licensing(T)
        rep.trail.append({'table': T, 'text': text, 'expected': None})
        got = parsing.parse_outcome(L, text)
        rep.case((repr(T), text), nontrivial=True, sample={'table': T, 'text': text, 'expected': str(build_expr(exp))})
        rep.count('interrupted_names')
        if got != [0, [exp]]:
            rep.violations.append({'key': 'recognise', 'kind': 'text', 'table': T, 'text': text, 'expected': exp, '_at': len(rep.trail) - 1,
                                   'what': 'a known name after an operator word that follows foreign words is not resolved: %r' % (got,)})
            continue
        rep.compared += 1
        if r != got and len(rep.broken) < 5:
            rep.broken.append('correspondence C04/interrupted: table %r text %r model %r implementation %r' % (T, text, r, got))
    # a name that is the beginning of a name declared before it (another license, an earlier alias of the same license, the
    # multi-word key of an earlier license): the order of declaration does not matter
    npre = 300 if tier == 'thorough' else 80
    reqs5, metas5 = [], []
    for _ in range(npre):
        w = rng.sample(wpool, 5)
        long_ws = w[0:rng.randint(3, 4)]
        short_ws = long_ws[:rng.randint(1, len(long_ws) - 1)]
        long_name, short_name = ' '.join(long_ws), ' '.join(short_ws)
        shape = rng.randrange(5)
        if shape == 0:      # two licenses, the longer alias first
            T = [('K-LONG', [long_name], False), ('K-SHORT', [short_name], False)]
            owner = {long_name: 'K-LONG', short_name: 'K-SHORT'}
        elif shape == 1:    # the same, shorter first (the control)
            T = [('K-SHORT', [short_name], False), ('K-LONG', [long_name], False)]
            owner = {long_name: 'K-LONG', short_name: 'K-SHORT'}
        elif shape == 2:    # two aliases of one license, the longer first
            T = [('K-ONE', [long_name, short_name], False), ('other', [], False)]
            owner = {long_name: 'K-ONE', short_name: 'K-ONE'}
        elif shape == 4:    # empty and blank entries among the aliases (an exported table): the names after them count as well
            T = [('K-ONE', rng.choice([['', long_name, '  ', short_name], [long_name, '', short_name], ['   ', short_name, long_name]]), False),
                 ('other', [''], False)]
            owner = {long_name: 'K-ONE', short_name: 'K-ONE'}
        else:               # an alias that begins the multi-word key of an earlier license
            T = [(long_name.upper(), [], False), ('K-SHORT', [short_name], False)]
            owner = {long_name: long_name.upper(), short_name: 'K-SHORT'}
        if not gen.table_ok(T):
            continue
        for nm in (short_name, long_name):
            X = [0, [0, [enc_str(owner[nm]), 0]]]
            Z = [0, [0, [enc_str('zz'), 0]]]
            for tmpl, exp in (('%s', X), ('zz or %s', [2, [Z, X]]), ('%s and zz', [1, [X, Z]]), ('(%s)', X)):
                text = tmpl % gen.vary_name(rng, nm)
                if ''.join(ch.lower() for ch in text) != text.lower():
                    continue
                reqs5.append((4, [enc_table(T), 0, 0, 0, enc_str(text)]))
                metas5.append((T, text, exp))
    res5 = run_model(reqs5)
    for (T, text, exp), r in zip(metas5, res5):
        L = make_licensing(T)
        rep.trail.append({'table': T, 'text': text, 'expected': None})
        got = parsing.parse_outcome(L, text)
        rep.case((repr(T), text), nontrivial=True, sample={'table': T, 'text': text, 'expected': str(build_expr(exp))} if len(rep.samples) < 40 else None)
        rep.count('prefix_names_in_both_orders')
        if got != [0, [exp]]:
            rep.violations.append({'key': 'recognise', 'kind': 'text', 'table': T, 'text': text, 'expected': exp, '_at': len(rep.trail) - 1,
                                   'what': 'a name that begins another name of the table is not resolved to its license: %r' % (got,)})
            continue
        rep.compared += 1
        if r != got and len(rep.broken) < 5:
            rep.broken.append('correspondence C04/prefix: table %r text %r model %r implementation %r' % (T, text, r, got))
    # two licenses whose aliases differ only by the white space around a parenthesis (defect D11, repaired: the constructor
    # used to compare aliases as space-normalised texts and accept the table, while the matcher stores both under the same
    # words and the later one won). A table that is accepted must resolve every alias to the license that declares it.
    for first, second in ((('A', 'gpl (v2)'), ('B', 'gpl(v2)')), (('B', 'gpl(v2)'), ('A', 'gpl (v2)')),
                          (('A', 'x ( y )'), ('B', 'X(Y)')), (('A', '(x) y'), ('B', '( X )\ty'))):
        T = [(first[0], [first[1]], False), (second[0], [second[1]], False)]
        rep.case(('paren-spacing', repr(T)), nontrivial=True, sample=None)
        rep.count('parenthesis_spacing_alias_pairs')
        what = paren_collision(T, le)
        if what:
            rep.violations.append({'key': what[0], 'kind': 'paren-collision', 'table': T, 'text': first[1], 'what': what[1]})
    # operator words inside longer words are not operators; longest wins, leftmost on a tie
    probes = [
        ([('mit', [], False)], 'orgpl and android', [1, [[0, [0, [enc_str('orgpl'), 0]]], [0, [0, [enc_str('android'), 0]]]]]),
        ([('GPL-2.0 or later', [], False), ('GPL-2.0', [], False)], 'gpl-2.0 OR LATER or gpl-2.0',
         [2, [[0, [0, [enc_str('GPL-2.0 or later'), 0]]], [0, [0, [enc_str('GPL-2.0'), 0]]]]]),
        ([('a b', [], False), ('b c', [], False)], 'a b c',
         None),   # tie: the leftmost match (a b) is kept, c is unknown -> two operands, rejected
        ([('a b c', [], False), ('b c', [], False), ('a', [], False)], 'a b c', [0, [0, [enc_str('a b c'), 0]]]),
    ]
    for T, text, exp in probes:
        L = make_licensing(T)
        rep.trail.append({'table': T, 'text': text, 'expected': None})
        got = parsing.parse_outcome(L, text)
        rep.case(('probe', text), nontrivial=True)
        if exp is not None and got != [0, [exp]]:
            rep.violations.append({'key': 'recognise', 'kind': 'text', 'table': T, 'text': text, 'expected': exp, '_at': len(rep.trail) - 1,
                                   'what': 'probe did not parse as expected: %r' % (got,)})
        if exp is None:
            toks = outcome = None
            try:
                toks = [(str(t[0]) if not isinstance(t[0], int) else t[0]) for t in L.tokenize(text)]
            except Exception as e:   # noqa
                toks = repr(e)
            if toks != ['a b', 'c']:
                rep.violations.append({'key': 'leftmost', 'kind': 'text', 'table': T, 'text': text, 'expected': None,
                                       'what': 'on a tie the leftmost match must be kept: tokens %r' % (toks,)})


def replay(payload):
    if payload.get('kind') == 'paren-collision':
        what = paren_collision([(k, a, e) for k, a, e in payload['table']], imp())
        return what is None, what[1] if what else 'every alias resolves to the license that declares it'
    return replay_text(payload)


def replay_text(payload):
    T = [tuple(x) for x in payload['table']]
    T = [(k, a, e) for k, a, e in T]
    L = make_licensing(T)
    got = parsing.parse_outcome(L, payload['text'])
    if payload.get('expected') is None:
        return True, 'probe'
    return got == [0, [payload['expected']]], 'outcome %r' % (got,)
