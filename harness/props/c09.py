"""
C09 — Deduplication removes exactly the repeated operands and nothing else.

Correspondence: Licensing.dedup and combine_expressions against the model on trees with duplicates
at any depth and on lists of expressions with every relation argument.
Spec oracle on the implementation: a reference deduplication (from the leaves up, drop every
operand whose rendering repeats an earlier sibling, collapse singletons), idempotence, unchanged
operand order and truth table; combine_expressions joins in the given order under AND / OR in any
letter case, refuses anything else with TypeError, keeps duplicates when asked to and returns a
sole input as it is.
"""
import random

from core import imp, run_model, enc_expr, build_expr, enc_str, outcome_of, enc_opt, REPRESENTATIONS
import algebra
import gen

RULE = ('seeded trees (depth <= 4, arity <= 5) over a small atom pool so that duplicates arise at every depth, with duplicated '
        'compound operands inserted on purpose and WITH pairs; every third tree from the collision stream (different symbols, '
        'equal rendering); combine: lists of 0-5 expression texts x relations (AND, and, Or, OR, xor, "", None, 3) x unique; '
        'non-trivial = the tree has a repeated rendering among siblings somewhere; distinct by tree / argument tuple')
ASSUMPTIONS = ['elements of the list given to combine_expressions are expressions or non-blank strings']

KEYS = ['mit', 'gpl', 'bsd', 'a b', 'x']


def ref_dedup(tree):
    """Reference on encoded trees: children first, first occurrence per rendering, collapse singletons."""
    if tree[0] == 0:
        return tree
    kids = [ref_dedup(x) for x in tree[1]]
    seen, out = {}, []
    for k in kids:
        r = str(build_expr(k))
        if r in seen:
            out[seen[r]] = k      # the code keeps the last object at the first position
            continue
        seen[r] = len(out)
        out.append(k)
    if len(out) == 1:
        return out[0]
    return [tree[0], out]


def has_sibling_dupes(tree):
    if tree[0] == 0:
        return False
    rs = [str(build_expr(x)) for x in tree[1]]
    return len(set(rs)) < len(rs) or any(has_sibling_dupes(x) for x in tree[1])


def collision(tree):
    """Two different sibling operands (after deduplication of the children) that render identically."""
    if tree[0] == 0:
        return False
    kids = [ref_dedup(x) for x in tree[1]]
    for i, a in enumerate(kids):
        for b in kids[i + 1:]:
            if a != b and str(build_expr(a)) == str(build_expr(b)):
                return True
    return any(collision(x) for x in tree[1])


def check_tree(tree, L):
    e = build_expr(tree)
    before = enc_expr(e)
    d = L.dedup(e)
    got = enc_expr(d)
    if enc_expr(e) != before:
        return 'dedup mutated its argument', got, 'mutation'
    want = ref_dedup(tree)
    if got != want:
        return 'dedup differs from the reference: %s vs %s' % (d, build_expr(want)), got, 'reference'
    if enc_expr(L.dedup(d)) != got:
        return 'dedup is not idempotent', got, 'idempotent'
    for like in REPRESENTATIONS:
        if enc_expr(L.dedup(build_expr(tree, like=like))) != got:
            return 'dedup depends on how the licenses are represented (plain symbol / wrapped user object)', got, 'representation'
    if algebra.same_truth(tree, got) is False:
        key = 'dedup-equal-rendering-different-operands' if collision(tree) else 'truth'
        return 'dedup changed the truth table: %s -> %s' % (e, d), got, key
    return None, got, None


def gen_dup_tree(rng, collide):
    t = gen.gen_tree(rng, depth=rng.randint(1, 4), maxar=5, keys=KEYS, collide=collide)
    # duplicate some compound operand somewhere
    for _ in range(rng.randint(0, 2)):
        paths = [p for p in algebra.nodes_paths(t) if algebra.get_at(t, p)[0] != 0]
        if not paths:
            break
        p = rng.choice(paths)
        node = algebra.get_at(t, p)
        args = list(node[1])
        args.insert(rng.randrange(len(args) + 1), rng.choice(args))
        t = algebra.set_at(t, p, [node[0], args])
    return t


ALIAS_TEXTS = ['GPL-2.0 or GPLv2', 'Expat and Apache-2.0 and MIT', 'Apache-2.0 and (GPLv2 or MIT or GPL-2.0) and Apache-2.0',
               'GPL-2.0 with Classpath or MIT or GPLv2 with Classpath-exception-2.0', 'MIT License or MIT', 'GNU GPL 2.0 and Apache 2.0 and GPL-2.0',
               'mit license and (expat or (apache 2.0 and APACHE-2.0))', 'foo bar or MIT or foo bar']


def alias_licensing(le):
    return le.Licensing([le.LicenseSymbol('GPL-2.0', aliases=('GPLv2', 'GNU GPL 2.0')), le.LicenseSymbol('MIT', aliases=('Expat', 'MIT License')),
                         le.LicenseSymbol('Apache-2.0', aliases=('Apache 2.0',)),
                         le.LicenseSymbol('Classpath-exception-2.0', aliases=('Classpath',), is_exception=True)])


def alias_text_error(text, le):
    L = alias_licensing(le)
    try:
        p = L.parse(text)
    except le.ExpressionError:
        return None
    want = ref_dedup(enc_expr(p))
    for arg, what in ((text, 'the text'), (p, 'its parse')):
        try:
            got = enc_expr(L.dedup(arg))
        except Exception as ex:   # noqa
            return 'dedup of %s raised %s: %s' % (what, type(ex).__name__, ex)
        if got != want:
            return 'dedup of %s is %s, the repeated operands of %s removed give %s' % (what, build_expr(got), p, build_expr(want))
    return None


def run(rep, tier, seed):
    le = imp()
    L = le.Licensing()
    rng = random.Random(seed)
    rep.broken = []
    rep.compared = 0
    n = 15000 if tier == 'thorough' else 1500
    trees = [gen_dup_tree(rng, i % 3 == 0) for i in range(n)]
    # the known finding, always exercised
    trees.append([2, [[0, [0, [enc_str('a AND b'), 0]]], [1, [[0, [0, [enc_str('a'), 0]]], [0, [0, [enc_str('b'), 0]]]]]]])
    trees.append([1, [[0, [0, [enc_str('a'), 1]]], [0, [0, [enc_str('a'), 0]]]]])
    res = run_model([(7, t) for t in trees])
    for t, r in zip(trees, res):
        err, got, key = check_tree(t, L)
        rep.case(t, nontrivial=has_sibling_dupes(t), sample={'tree': str(build_expr(t)), 'dedup': str(build_expr(got))})
        rep.count('trees')
        if err:
            small = t
            if key == 'truth':
                small = gen.shrink_tree(t, lambda c: check_tree(c, L)[2] == 'truth')
            elif key == 'dedup-equal-rendering-different-operands':
                small = gen.shrink_tree(t, lambda c: check_tree(c, L)[2] == key)
            rep.violations.append({'key': key, 'kind': 'tree', 'tree': small, 'text': str(build_expr(small)), 'what': err})
            if key != 'dedup-equal-rendering-different-operands':
                continue
        rep.compared += 1
        if r != [0, got] and len(rep.broken) < 5:
            rep.broken.append('correspondence C09/dedup: tree %s model %r implementation %r' % (build_expr(t), r, got))
    # dedup of strings = dedup of their parse
    for _ in range(200):
        t = gen_dup_tree(rng, False)
        s = str(build_expr(t))
        try:
            p = L.parse(s)
        except le.ExpressionError:
            continue
        rep.case(('str', s), nontrivial=False)
        try:
            same = enc_expr(L.dedup(s)) == enc_expr(L.dedup(p))
            why = 'dedup(string) differs from dedup(parse(string))'
        except Exception as ex:   # noqa
            same, why = False, 'dedup of a text that parses raised %s: %s' % (type(ex).__name__, ex)
        if not same:
            rep.violations.append({'key': 'string', 'kind': 'text', 'text': s, 'what': why})
    # ... also over a table whose licenses have aliases and names of several words: one license spelled in two ways is one operand
    for s_ in ALIAS_TEXTS:
        rep.case(('str-table', s_), nontrivial=True)
        rep.count('alias_texts')
        err = alias_text_error(s_, le)
        if err:
            rep.violations.append({'key': 'string', 'kind': 'text-table', 'text': s_, 'what': err})
    # combine_expressions
    rels = RELS
    texts_pool = ['mit', 'gpl', 'mit', 'a or b', 'mit and gpl', 'gpl', 'x with y', '(mit)', 'MIT', ' mit ']
    m = 4000 if tier == 'thorough' else 500
    reqs, metas = [], []
    for _ in range(m):
        k = rng.randint(0, 5)
        texts = [rng.choice(texts_pool) for _ in range(k)]
        rel, code = rng.choice(rels)
        uniq = rng.random() < 0.6
        reqs.append((8, [[enc_str(x) for x in texts], code, int(uniq)]))
        metas.append((texts, rel, code, uniq))
    res = run_model(reqs)
    for (texts, rel, code, uniq), r in zip(metas, res):
        got = outcome_of(lambda: le.combine_expressions(list(texts), relation=rel, unique=uniq), lambda e: enc_opt(e, enc_expr))
        rep.case(('combine', tuple(texts), repr(rel), uniq), nontrivial=len(texts) >= 2,
                 sample={'expressions': texts, 'relation': rel, 'unique': uniq, 'outcome': got[0]})
        rep.count('combine')
        err = combine_error(texts, rel, code, uniq, got, L)
        if err:
            rep.violations.append({'key': 'combine', 'kind': 'combine', 'expressions': texts, 'relation': repr(rel),
                                   'unique': uniq, 'what': err, 'text': repr(texts)})
            continue
        rep.compared += 1
        if r != got and len(rep.broken) < 5:
            rep.broken.append('correspondence C09/combine: %r %r %r model %r implementation %r' % (texts, rel, uniq, r, got))
    # a sole input is returned as it is (the same object)
    e = L.parse('mit or gpl')
    rep.case(('sole',), nontrivial=False)
    if le.combine_expressions([e]) is not e:
        rep.violations.append({'key': 'sole', 'kind': 'combine', 'what': 'a sole input is not returned as it is', 'text': 'mit or gpl'})
    for bad in ('mit', 5, {'mit'}):
        rep.case(('nonlist', repr(bad)), nontrivial=False)
        try:
            le.combine_expressions(bad)
            rep.violations.append({'key': 'nonlist', 'kind': 'combine', 'what': 'non-list input accepted', 'text': repr(bad)})
        except TypeError:
            pass
        except Exception as ex:   # noqa
            rep.violations.append({'key': 'nonlist', 'kind': 'combine', 'what': 'non-list input raised ' + type(ex).__name__, 'text': repr(bad)})


def combine_error(texts, rel, code, uniq, got, L):
    """What combine_expressions must return for a list of texts, a relation and the unique switch."""
    if not texts:
        return None if got == [0, []] else 'empty input did not return None'
    if code == 2:
        return None if got == [4] else 'relation %r was not refused with TypeError: %r' % (rel, got)
    parsed = [enc_expr(L.parse(x, simple=True)) for x in texts]
    if uniq:
        seen, out = {}, []
        for p in parsed:
            s = str(build_expr(p))
            if s in seen:
                continue
            seen[s] = 1
            out.append(p)
        parsed = out
    want = [0, [parsed[0]]] if len(parsed) == 1 else [0, [[1 + code, parsed]]]
    if got != want:
        return 'combine_expressions(%r, %r, unique=%r) = %r, expected %r' % (texts, rel, uniq, got, want)
    return None


RELS = [('AND', 0), ('and', 0), ('And', 0), ('OR', 1), ('or', 1), ('oR', 1), ('xor', 2), ('', 2), (None, 2), (3, 2), ('AND ', 2)]


def replay(payload):
    if payload.get('kind') == 'text-table':
        err = alias_text_error(payload['text'], imp())
        return err is None, err or 'dedup of the text is dedup of its parse'
    return replay_other(payload)


def replay_other(payload):
    le = imp()
    if payload.get('kind') == 'combine' and 'expressions' in payload:
        rel = [r for r, c in RELS if repr(r) == payload['relation']][0]
        code = dict((repr(r), c) for r, c in RELS)[payload['relation']]
        got = outcome_of(lambda: le.combine_expressions(list(payload['expressions']), relation=rel, unique=payload['unique']),
                         lambda e: enc_opt(e, enc_expr))
        err = combine_error(list(payload['expressions']), rel, code, payload['unique'], got, le.Licensing())
        return err is None, err or 'outcome %r' % (got,)
    if payload.get('kind') == 'tree':
        err, got, key = check_tree(payload['tree'], le.Licensing())
        return err is None, err or 'dedup matches the reference'
    if payload.get('kind') == 'text':
        L = le.Licensing()
        try:
            p_ = L.parse(payload['text'])
        except le.ExpressionError:
            return True, 'the text does not parse'
        try:
            ok = enc_expr(L.dedup(payload['text'])) == enc_expr(L.dedup(p_))
            return ok, 'dedup(string) %s dedup(parse(string))' % ('equals' if ok else 'differs from')
        except Exception as ex:   # noqa
            return False, 'dedup of a text that parses raised %s: %s' % (type(ex).__name__, ex)
    return True, 'nothing to replay'
