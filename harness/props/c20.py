"""
C20 — A shared Licensing is safe to use from several threads, first use included (partial).

Tie: the statement order of Licensing.get_advanced_tokenizer is regenerated from the source on
every run (coq/gen/ThreadProg.v) and Tie/ThreadProg.v proves it satisfies the hypothesis of the
thread-safety theorem. Correspondence: the real code is driven by a deterministic line-level
scheduler (sys.settrace) through every single-preemption schedule of two threads calling parse on a
fresh shared Licensing (and sampled schedules with more preemptions, a third thread, and a thread
constructing other Licensing objects); the abstract events of each execution (which statement of
get_advanced_tokenizer completed in which thread) are replayed on the model, which must accept
the trace and predict a complete tokenizer for every call.
Spec oracle on the implementation: every call returns exactly what it returns when run alone.
"""
import ast
import os
import random
import sys

from core import imp, run_model, make_licensing
import sched
import translators

RULE = ('every single-preemption schedule (switch after k line events, k = 1..N, both thread orders; quick: every 2nd k) of two '
        'threads calling parse on a fresh shared Licensing, for 2 tables / texts; thorough adds sampled 2- and 3-preemption '
        'schedules, three threads, and a thread constructing further Licensing objects; non-trivial = the switch happens '
        'inside the first-use initialisation; distinct by the schedule')
ASSUMPTIONS = ['interleavings at line granularity only: bytecode-level switches inside a line, the GIL and free-threaded builds '
               'and the C-level atomicity of dict / set operations are not modelled',
               'the model identifies a tokenizer with the thread that builds it and treats each adding loop as one step']
TRUSTED_EXTRA = ['the sys.settrace scheduler harness/sched.py (one thread runs at a time; switches only at line events of '
                 'license_expression/__init__.py and _pyahocorasick.py)']

INSTR = {'IRead': 0, 'IAlloc': 1, 'IAdd': 2, 'IFinalize': 3, 'IPublish': 4, 'IReturn': 5}


def program():
    """The abstract program and the line ranges of its statements, from the source."""
    items = translators.thread_items(os.path.join(translators.REPO_SRC, '__init__.py'))
    instrs = [i for _, _, ins in items for i in ins]
    ranges = [(a, b, ins) for a, b, ins in items]
    return instrs, ranges


class Logger(object):
    """Abstract events: (thread, instruction) when a statement of get_advanced_tokenizer completes."""
    def __init__(self, ranges, nthreads):
        self.ranges = ranges
        self.cur = [None] * nthreads
        self.frames = [None] * nthreads
        self.log = []

    def stmt_of(self, lineno):
        found = None
        for i, (a, b, ins) in enumerate(self.ranges):
            if a <= lineno <= b:
                found = i
        return found

    def __call__(self, tid, frame, event):
        if frame.f_code.co_name != 'get_advanced_tokenizer':
            return
        if event == 'line':
            j = self.stmt_of(frame.f_lineno)
            if j is None:
                return
            if self.cur[tid] is not None and self.cur[tid] != j:
                for ins in self.ranges[self.cur[tid]][2]:
                    self.log.append((tid, ins))
            self.cur[tid] = j
        elif event == 'return':
            if self.cur[tid] is not None:
                for ins in self.ranges[self.cur[tid]][2]:
                    self.log.append((tid, ins))
            self.cur[tid] = None


SETUPS = [
    ([('mit', [], False), ('GPL 2.0', ['GNU GPL v2'], False), ('Classpath', [], True)], 'mit or GPL 2.0 with classpath'),
    ([('gpl', [], False)], 'gpl and zz top'),
]
# first calls through the simple tokenizer (no tokenizer is built: these executions are judged by the oracle only), in
# another letter case than the keys, alone and against a first call through the default tokenizer
SIMPLE_SETUPS = [
    ([('MIT', ['MIT License'], False), ('GPL-2.0', ['GNU GPL 2'], False), ('Classpath-2.0', [], True)], 'mit or gpl-2.0 with classpath-2.0',
     ({'simple': True}, {'simple': True})),
    ([('MIT', ['MIT License'], False), ('GPL-2.0', ['GNU GPL 2'], False), ('Classpath-2.0', [], True)], 'gpl-2.0 and mit',
     ({'simple': True, 'validate': True}, {})),
    # the same text asked with other options by the other thread: an option of one call is not an option of the other
    ([('MIT', ['MIT License'], False), ('GPL-2.0', ['GNU GPL 2'], False), ('Classpath-2.0', [], True)], 'GNU GPL 2 with mit or mit',
     ({'strict': True}, {})),
    ([('MIT', ['MIT License'], False), ('GPL-2.0', ['GNU GPL 2'], False), ('Classpath-2.0', [], True)], 'gpl-2.0 with classpath-2.0 or foo',
     ({'validate': True}, {'strict': True})),
    ([('MIT', ['MIT License'], False), ('GPL-2.0', ['GNU GPL 2'], False), ('Classpath-2.0', [], True)], 'classpath-2.0 or MIT License',
     ({'strict': True, 'simple': True}, {'simple': False})),
]


def expected_for(T, text, kw=None):
    """What the call returns alone: the rendering, or ('raised', type name, message)."""
    try:
        return str(make_licensing(T).parse(text, **(kw or {})))
    except Exception as ex:   # noqa
        return ('raised', type(ex).__name__, str(ex))


def outcome(result, error):
    return result if error is None else ('raised', type(error).__name__, str(error))


# two threads parsing different texts on one Licensing (anything kept on the shared tokenizer between two steps of one call
# would be overwritten by the other call)
TEXT_PAIRS = [
    ([('mit', ['MIT license'], False), ('GPL 2.0', ['GNU GPL v2'], False), ('Classpath', [], True), ('Apache-2.0', [], False)],
     ('mit and (GPL 2.0 with classpath or Apache-2.0)', 'gnu gpl v2 or Some Unknown License')),
]


def execute(T, text, schedule, nthreads, ranges, extra=None, kwargs=None):
    """One controlled execution. Returns (results, log, lines per thread, errors)."""
    le = imp()
    L = make_licensing(T)
    kws = list(kwargs or ()) + [{}] * nthreads
    texts = list(text) if isinstance(text, (list, tuple)) else [text] * nthreads
    texts = texts + [texts[-1]] * nthreads
    fns = [(lambda kw=kws[i], tx=texts[i]: str(L.parse(tx, **kw))) for i in range(nthreads)]
    if extra == 'ctor':
        fns[-1] = lambda: str(le.Licensing(['zlib', 'x y']).parse('zlib or x y'))
    if extra == 'ctor-same':
        # the shared Licensing and the one constructed meanwhile are given the very same symbol objects (a module-level table)
        S = [le.LicenseSymbol(k, aliases=tuple(a), is_exception=e) for k, a, e in T]
        L = le.Licensing(S)
        fns = [(lambda kw=kws[i], tx=texts[i]: str(L.parse(tx, **kw))) for i in range(nthreads)]
        fns[-1] = lambda: str(len(le.Licensing(S).known_symbols))
    lg = Logger(ranges, nthreads)
    r = sched.Run(fns, schedule, on_line=lg).go()
    return r.results, lg.log, r.lines, r.errors, r.deadlock


def run(rep, tier, seed):
    le = imp()
    rng = random.Random(seed)
    rep.broken = []
    rep.compared = 0
    rep.traces = 0
    try:
        instrs, ranges = program()
    except translators.Unsupported:
        # the statement order of get_advanced_tokenizer cannot be read (the tie is reported broken by main.py): there is no
        # trace to validate, but the oracle still judges executions
        unreadable_program(rep, tier)
        return
    prog = [INSTR[i] for i in instrs]
    cases = []
    for T, text in SETUPS:
        want = expected_for(T, text)
        # length of a first call alone, in line events
        res, log, lines, errs, dl = execute(T, text, [(0, None), (1, None)], 2, ranges)
        n0 = lines[0]
        stride = 1 if tier == 'thorough' else 2
        for first in (0, 1):
            other = 1 - first
            for k in range(1, n0 + 1, stride):
                cases.append((T, text, want, [(first, k), (other, None), (first, None)], 2, None))
        extra_n = 400 if tier == 'thorough' else 40
        for _ in range(extra_n):
            a, b = sorted(rng.sample(range(1, n0), 2))
            cases.append((T, text, want, [(0, a), (1, rng.randint(1, n0)), (0, b - a), (1, None), (0, None)], 2, None))
        for _ in range(extra_n // 2):
            cases.append((T, text, want, [(0, rng.randint(1, n0)), (1, rng.randint(1, n0)), (2, rng.randint(1, n0)),
                                          (0, rng.randint(1, n0)), (1, None), (2, None), (0, None)], 3, None))
        for _ in range(extra_n // 2):
            cases.append((T, text, want, [(0, rng.randint(1, n0)), (2, rng.randint(1, 200)), (1, rng.randint(1, n0)),
                                          (2, None), (0, None), (1, None)], 3, 'ctor'))
    # the simple tokenizer's first use: every single-preemption schedule, judged by the oracle alone
    for T, text, kws in SIMPLE_SETUPS:
        wants = [expected_for(T, text, kw) for kw in kws]
        res, log, lines, errs, dl = execute(T, text, [(0, None), (1, None)], 2, ranges, kwargs=kws)
        for first in (0, 1):
            other = 1 - first
            for k in range(1, lines[first] + 1, 1 if tier == 'thorough' else 2):
                schedule = [(first, k), (other, None), (first, None)]
                results, log, lines2, errs, dl = execute(T, text, schedule, 2, ranges, kwargs=kws)
                rep.case((repr(T), text, repr(schedule), repr(kws)), nontrivial=True,
                         sample={'table': T, 'text': text, 'schedule': schedule, 'kwargs': list(kws)} if k == 1 else None)
                rep.count('simple_first_use_schedules')
                bad = 'the execution did not terminate under the scheduler' if dl else None
                for i, r in enumerate(results):
                    if outcome(r, errs[i]) != wants[i]:
                        bad = bad or 'thread %d (options %r): %r, alone: %r' % (i, kws[i], outcome(r, errs[i]), wants[i])
                if bad:
                    rep.violations.append({'key': 'schedule', 'kind': 'schedule', 'table': T, 'text': text, 'schedule': schedule,
                                           'threads': 2, 'extra': None, 'kwargs': list(kws), 'what': bad})
    for T, texts in TEXT_PAIRS:
        wants = [expected_for(T, tx) for tx in texts]
        res, log, lines, errs, dl = execute(T, texts, [(0, None), (1, None)], 2, ranges)
        for first in (0, 1):
            other = 1 - first
            for k in range(1, lines[first] + 1, 1 if tier == 'thorough' else 2):
                schedule = [(first, k), (other, None), (first, None)]
                results, log, lines2, errs, dl = execute(T, texts, schedule, 2, ranges)
                rep.case((repr(T), repr(texts), repr(schedule)), nontrivial=True,
                         sample={'table': T, 'texts': list(texts), 'schedule': schedule} if k == 1 else None)
                rep.count('different_texts_schedules')
                bad = 'the execution did not terminate under the scheduler' if dl else None
                for i, r in enumerate(results):
                    if errs[i] is not None:
                        bad = bad or 'thread %d raised %s: %s' % (i, type(errs[i]).__name__, errs[i])
                    elif r != wants[i]:
                        bad = bad or 'thread %d returned %r, alone it returns %r' % (i, r, wants[i])
                if bad:
                    rep.violations.append({'key': 'schedule', 'kind': 'schedule', 'table': T, 'text': list(texts), 'schedule': schedule,
                                           'threads': 2, 'extra': None, 'what': bad})
    # another Licensing constructed over the same symbol objects while the shared one is first used: the constructor is stopped
    # after k lines, the first use runs, the constructor goes on
    CT, ctext = ([('MIT', ['the MIT license'], False), ('GPL-2.0-or-later', ['GNU GPL v2 or later', 'GPL 2+'], False),
                  ('Classpath-exception-2.0', ['classpath exception 2.0'], True)],
                 'GNU GPL v2 or later with classpath exception 2.0 or the MIT license')
    cwant = expected_for(CT, ctext)
    res, log, lines, errs, dl = execute(CT, ctext, [(2, None), (0, None), (1, None)], 3, ranges, 'ctor-same')
    for k in range(1, lines[2] + 1, 1 if tier == 'thorough' else 2):
        schedule = [(2, k), (0, None), (2, None), (1, None)]
        results, log, lines2, errs, dl = execute(CT, ctext, schedule, 3, ranges, 'ctor-same')
        rep.case((repr(CT), ctext, repr(schedule), 'ctor-same'), nontrivial=True, sample={'table': CT, 'text': ctext, 'schedule': schedule} if k == 1 else None)
        rep.count('constructor_over_the_same_symbols_schedules')
        bad = 'the execution did not terminate under the scheduler' if dl else None
        for i, r in enumerate(results[:2]):
            if outcome(r, errs[i]) != cwant:
                bad = bad or 'thread %d: %r, alone: %r' % (i, outcome(r, errs[i]), cwant)
        if errs[2] is not None:
            bad = bad or 'the constructor raised %r' % (errs[2],)
        if bad:
            rep.violations.append({'key': 'schedule', 'kind': 'schedule', 'table': CT, 'text': ctext, 'schedule': schedule,
                                   'threads': 3, 'extra': 'ctor-same', 'what': bad})
            break
    reqs, metas = [], []
    for T, text, want, schedule, nth, extra in cases:
        results, log, lines, errs, dl = execute(T, text, schedule, nth, ranges, extra)
        init_switch = schedule[0][1] is not None and schedule[0][1] <= 400
        rep.case((repr(T), text, repr(schedule), extra), nontrivial=init_switch,
                 sample={'table': T, 'text': text, 'schedule': schedule, 'threads': nth, 'events': [list(e) for e in log[:12]]})
        rep.count('schedules')
        bad = None
        if dl:
            bad = 'the execution did not terminate under the scheduler'
        for i, r in enumerate(results):
            w = want if not (extra == 'ctor' and i == nth - 1) else 'zlib OR x y'
            if errs[i] is not None:
                bad = bad or 'thread %d raised %s: %s' % (i, type(errs[i]).__name__, errs[i])
            elif r != w:
                bad = bad or 'thread %d returned %r, alone it returns %r' % (i, r, w)
        if bad:
            rep.violations.append({'key': 'schedule', 'kind': 'schedule', 'table': T, 'text': text, 'schedule': schedule,
                                   'threads': nth, 'extra': extra, 'what': bad})
            continue
        # abstract trace on the model (the constructing thread does not touch this Licensing: only its
        # own get_advanced_tokenizer events appear; they belong to another slot and are dropped)
        ev = [(t, i) for t, i in log if not (extra == 'ctor' and t == nth - 1)]
        reqs.append((18, [prog, nth, [t for t, _ in ev]]))
        metas.append((ev, schedule, nth, extra, T, text))
    res = run_model(reqs)
    for (ev, schedule, nth, extra, T, text), r in zip(metas, res):
        trace, threads, slot, safe = r
        want_trace = [[INSTR[i]] for _, i in ev]
        ok = trace == want_trace and safe == 1
        for i, th in enumerate(threads):
            if extra == 'ctor' and i == nth - 1:
                continue
            if th[1] != [1]:
                ok = False
        rep.compared += 1
        if ok:
            rep.traces += 1
        elif len(rep.broken) < 5:
            rep.broken.append('correspondence C20: schedule %r: the model does not accept the trace of the implementation: '
                              'events %r, model trace %r, final threads %r, shape_safe %r' % (schedule, ev[:14], trace[:14], threads, safe))


def unreadable_program(rep, tier):
    """Oracle-only exploration when the abstract program cannot be read: every k-th single-preemption schedule of two first
    calls, and two preemptions around the end of get_advanced_tokenizer (the first thread is stopped inside it, the second runs
    until it returns or blocks, the first goes on for j lines, the second again)."""
    T, text = SETUPS[0]
    want = expected_for(T, text)
    mark = {}

    def on_line(tid, frame, event):
        if tid == 0 and event == 'return' and frame.f_code.co_name == 'get_advanced_tokenizer' and 'end' not in mark:
            mark['end'] = True
            mark['at'] = run0.lines[0]
    le = imp()
    L = make_licensing(T)
    run0 = sched.Run([lambda: str(L.parse(text)), lambda: str(L.parse(text))], [(0, None), (1, None)])
    # wrap the tracer callback to learn where the first call leaves get_advanced_tokenizer
    run0.on_line = on_line
    run0.go()
    n0, end = run0.lines[0], mark.get('at', run0.lines[0])
    schedules = []
    for first in (0, 1):
        for k in range(1, n0 + 1, 5 if tier == 'thorough' else 11):
            schedules.append([(first, k), (1 - first, None), (first, None)])
    for k in sorted({max(1, end // 3), max(1, end // 2), max(1, end - 40)}):
        for j in range(max(1, end - k - (60 if tier == 'thorough' else 25)), end - k + 4):
            schedules.append([(0, k), (1, None), (0, j), (1, None), (0, None)])
    for schedule in schedules:
        results, log, lines, errs, dl = execute(T, text, schedule, 2, [])
        rep.case((repr(T), text, repr(schedule), 'unreadable'), nontrivial=True, sample=None)
        rep.count('schedules_without_trace')
        bad = 'the execution did not terminate under the scheduler' if dl else None
        for i, r in enumerate(results):
            if outcome(r, errs[i]) != want:
                bad = bad or 'thread %d: %r, alone: %r' % (i, outcome(r, errs[i]), want)
        if bad:
            rep.violations.append({'key': 'schedule', 'kind': 'schedule', 'table': T, 'text': text, 'schedule': schedule,
                                   'threads': 2, 'extra': None, 'what': bad})
            return


def search(rep, tier, seed):
    """Called when the tie or the proof is broken and no failing schedule was found yet: nothing more to
    enumerate than run() already did on every single-preemption schedule."""
    return


def replay(payload):
    try:
        instrs, ranges = program()
    except translators.Unsupported:
        ranges = []
    T = [(k, a, e) for k, a, e in payload['table']]
    sc = [tuple(x) for x in payload['schedule']]
    kws = payload.get('kwargs')
    results, log, lines, errs, dl = execute(T, payload['text'], sc, payload['threads'], ranges, payload.get('extra'), kwargs=kws)
    ptx = payload['text']
    ptxs = list(ptx) if isinstance(ptx, (list, tuple)) else [ptx] * payload['threads']
    wants = [expected_for(T, ptxs[min(i, len(ptxs) - 1)], (kws[i] if kws and i < len(kws) else None)) for i in range(payload['threads'])]
    ok = all((outcome(r, errs[i]) == wants[i] or (errs[i] is None and payload.get('extra') in ('ctor', 'ctor-same') and i == payload['threads'] - 1))
             for i, r in enumerate(results))
    return ok, 'results %r (alone: %r)' % (results, wants[0])
