"""
C14 — A Licensing accepts exactly the unambiguous symbol tables, in any form.

Correspondence: Licensing(...) (accepted / ValueError) against the model's new_licensing on random
tables of valid symbols in every entry order. Spec oracle on the implementation: the declarative
rule (same key ignoring case; alias of two licenses; alias equal to another key; alias a bare
operator word), and identical answers to a set of queries from the three representations of the
same table (key strings, LicenseSymbol objects, arbitrary objects exposing key / aliases /
is_exception).
"""
import itertools
import random

from core import imp, run_model, enc_table, enc_str, make_licensing, outcome_of, enc_expr, enc_opt
import gen
import parsing

RULE = ('seeded tables of 1-4 entries (keys of 1-3 words, 0-2 aliases written with other case / doubled spaces / tabs, a third with a directed collision, chosen from a '
        'small colliding pool so that about half are ambiguous), each in every entry order (<= 24 permutations); accepted '
        'tables are queried through all three representations; non-trivial = the table has >= 2 entries; distinct by the '
        'ordered table')
ASSUMPTIONS = ['names are words separated by white space; non-text aliases are outside this property; aliases bearing parentheses are outside its quantifier and exercised by an own stream (accept / refuse against the rule and the model, the representations against each other)']

WORDS = ['gpl', 'GPL', 'mit', '2.0', 'gnu', 'or', 'later', 'x']
PAREN_KEYS = ['A', 'B', 'gpl', 'x']
PAREN_ALIASES = ['gpl (v2)', 'gpl(v2)', 'GPL ( V2 )', 'gpl v2', '(x) gpl', '( X )\tgpl', 'x gpl', '(x)gpl', 'gpl (v2', 'gpl( v2', 'x )', 'X)',
                 '(', ' ( ', '()', '( )', 'mit(', 'MIT  (']


def rule(T):
    keys = [' '.join(k.split()).lower() for k, _, _ in T]
    if len(set(keys)) < len(keys):
        return False
    owner = {}
    for (k, als, _), kl in zip(T, keys):
        names = {kl}
        for a in als:
            n = ' '.join(gen.lw(a))     # the lower-cased words of the alias (within this property's scope: a.lower().split())
            if n:
                names.add(n)
        for n in names:
            if n in ('and', 'or', 'with', '(', ')'):
                return False
            if owner.setdefault(n, kl) != kl:
                return False
    return True


def gen_table(rng):
    n = rng.randint(1, 4)
    T = []
    for _ in range(n):
        k = ' '.join(rng.choice(WORDS) for _ in range(rng.choice([1, 1, 2, 3])))
        if k.lower() in ('and', 'or', 'with'):
            k = 'k' + k
        als = []
        for _ in range(rng.choice([0, 0, 1, 2])):
            a = ' '.join(rng.choice(WORDS + ['and', 'with']) for _ in range(rng.choice([1, 1, 2])))
            a = rng.choice([a, a.upper(), a.replace(' ', '   '), ' ' + a + ' '])
            als.append(a)
        T.append((k, als, rng.random() < 0.3))
    if len(T) >= 2 and rng.random() < 0.3:
        # a directed collision: a name of one entry, written with other case and inner white space, as alias of another
        i, j = rng.sample(range(len(T)), 2)
        names = [T[i][0]] + [a for a in T[i][1] if a.strip()]
        words = rng.choice(names).split()
        if len(words) == 1:
            words = words + [rng.choice(WORDS)]
            T[i] = (T[i][0], T[i][1] + [' '.join(words)], T[i][2])
        v = rng.choice(['  ', '\t', ' \t ', '\n', ' ']).join(w.upper() if rng.random() < 0.5 else w for w in words)
        T[j] = (T[j][0], T[j][1] + [v], T[j][2])
    return T


def queries(L, T, le):
    out = []
    texts = []
    for k, als, _ in T:
        texts.append(k.upper())
        texts.extend(a for a in als if a.strip())
    texts.append(' or '.join(k for k, _, _ in T))
    texts.append(' and '.join((als[0] if als else k) for k, als, _ in T) + ' with zz')
    for t in texts:
        for strict in (False, True):
            out.append(parsing.parse_outcome(L, t, strict=strict))
        out.append(outcome_of(lambda: L.license_keys(t)))
        out.append(outcome_of(lambda: L.unknown_license_keys(t)))
        info = L.validate(t)
        out.append([info.normalized_expression, len(info.errors), info.invalid_symbols])
    return out


def run(rep, tier, seed):
    le = imp()
    rng = random.Random(seed)
    rep.broken = []
    rep.compared = 0
    n = 3000 if tier == 'thorough' else 350
    cases = []
    for _ in range(n):
        T = gen_table(rng)
        perms = list(itertools.permutations(T)) if len(T) <= 3 else [tuple(T), tuple(reversed(T))] + \
            [tuple(rng.sample(T, len(T))) for _ in range(4)]
        for p in perms:
            cases.append(list(p))
    # aliases bearing parentheses (outside the quantifier of the property, inside the rule since the D11 repair: the spacing
    # around a parenthesis is spacing): an own stream with its own generator state, after the main one
    rng2 = random.Random(seed * 7919 + 14)
    for _ in range(400 if tier == 'thorough' else 60):
        T = []
        for k in rng2.sample(PAREN_KEYS, rng2.choice([2, 2, 3])):
            T.append((k, [rng2.choice(PAREN_ALIASES) for _ in range(rng2.choice([1, 1, 2]))], False))
        rep.count('tables_with_parenthesised_aliases')
        for p in itertools.permutations(T):
            cases.append(list(p))
    res = run_model([(11, enc_table(T)) for T in cases])
    for T, r in zip(cases, res):
        want_ok = rule(T)
        try:
            L = make_licensing(T, 'sym')
            got_ok = True
        except ValueError:
            got_ok = False
        rep.case(repr(T), nontrivial=len(T) >= 2, sample={'table': T, 'accepted': got_ok})
        rep.count('accepted' if got_ok else 'refused')
        if got_ok != want_ok:
            rep.violations.append({'key': 'rule', 'kind': 'table', 'table': T,
                                   'what': 'Licensing(...) accepted=%r but the rule says %r' % (got_ok, want_ok)})
            continue
        rep.compared += 1
        if (r[0] == 0) != got_ok and len(rep.broken) < 5:
            rep.broken.append('correspondence C14: table %r model %r implementation accepted=%r' % (T, r, got_ok))
        if got_ok:
            forms = ['sym', 'obj']
            if all(not als and not ex for _, als, ex in T):
                forms.append('str')
            ref = queries(L, T, le)
            for f in forms[1:]:
                try:
                    Lf = make_licensing(T, f)
                except ValueError:
                    rep.violations.append({'key': 'forms', 'kind': 'table', 'table': T, 'what': 'representation %s refused' % f})
                    continue
                if queries(Lf, T, le) != ref:
                    rep.violations.append({'key': 'forms', 'kind': 'table', 'table': T,
                                           'what': 'representation %s answers differently from LicenseSymbol objects' % f})
        else:
            for f in ('obj',):
                try:
                    make_licensing(T, f)
                    rep.violations.append({'key': 'forms', 'kind': 'table', 'table': T, 'what': 'representation %s accepted an ambiguous table' % f})
                except ValueError:
                    pass


def replay(payload):
    T = [(k, a, e) for k, a, e in payload['table']]
    try:
        make_licensing(T, 'sym')
        got = True
    except ValueError:
        got = False
    if got != rule(T):
        return False, 'accepted=%r rule=%r' % (got, rule(T))
    le = imp()
    try:
        Lo = make_licensing(T, 'obj')
        goto = True
    except ValueError:
        goto = False
    if goto != got:
        return False, 'LicenseSymbol objects accepted=%r, arbitrary objects accepted=%r' % (got, goto)
    if got and queries(Lo, T, le) != queries(make_licensing(T, 'sym'), T, le):
        return False, 'arbitrary objects answer differently from LicenseSymbol objects'
    return True, 'accepted=%r rule=%r, same answers from both representations' % (got, rule(T))
