"""
C10 — License key and symbol listings follow text order.

Correspondence: license_symbols / license_keys / primary_* / unknown_* of the implementation
against the model for every combination of the unique / decompose switches.
Spec oracle on the implementation: the listings computed from the licenses of the generated text,
in text order; string arguments give the same answer as parsed arguments.
"""
import random

from core import imp, run_model, enc_table, enc_str, make_licensing, dec_str, enc_atom, enc_expr, enc_opt, build_expr, REPRESENTATIONS
import gen
import parsing
import algebra

RULE = ('grammar-generated expressions over seeded tables (known names in variants, unknown runs, WITH pairs, repeated '
        'licenses) with their license sequence known by construction; every listing call with every switch combination, '
        'string and parsed argument; non-trivial = the expression has a repeated license or a WITH pair; distinct by (table, text)')
ASSUMPTIONS = ['listings of a string are compared with the listings of its parse on the same Licensing']


def text_order_atoms(tree):
    """Encoded atoms of an encoded tree, left to right."""
    if tree[0] == 0:
        return [tree[1]]
    out = []
    for x in tree[1]:
        out.extend(text_order_atoms(x))
    return out


def uniq(seq):
    out = []
    for x in seq:
        if x not in out:
            out.append(x)
    return out


def expected(T, tree):
    atoms = text_order_atoms(tree)
    known = {k for k, _, _ in T}
    dec = []
    for a in atoms:
        if a[0] == 0:
            dec.append([0, a[1]])
        else:
            dec.append([0, a[1]])
            dec.append([0, a[2]])
    res = {}
    res['symbols'] = {(True, True): uniq(dec), (True, False): uniq(atoms), (False, True): dec, (False, False): atoms}
    keys = [dec_str(a[1][0]) for a in dec]
    res['keys'] = {True: uniq(keys), False: keys}
    res['primary_symbol'] = {True: (uniq(dec) or [None])[0], False: (uniq(atoms) or [None])[0]}
    res['primary_key'] = keys[0] if keys else None
    unk = lambda a: dec_str(a[1][0]) not in known
    res['unknown_symbols'] = {True: [a for a in uniq(dec) if unk(a)], False: [a for a in dec if unk(a)]}
    uk = [k for k in keys if k not in known]
    res['unknown_keys'] = {True: uniq(uk), False: uk}
    return res


def observe(L, arg):
    obs = {}
    obs['symbols'] = {(u, d): [enc_atom(s) for s in L.license_symbols(arg, unique=u, decompose=d)]
                      for u in (True, False) for d in (True, False)}
    obs['keys'] = {u: L.license_keys(arg, unique=u) for u in (True, False)}
    obs['primary_symbol'] = {d: (lambda s: enc_atom(s) if s is not None else None)(L.primary_license_symbol(arg, decompose=d))
                             for d in (True, False)}
    obs['primary_key'] = L.primary_license_key(arg)
    obs['unknown_symbols'] = {u: [enc_atom(s) for s in L.unknown_license_symbols(arg, unique=u)] for u in (True, False)}
    obs['unknown_keys'] = {u: L.unknown_license_keys(arg, unique=u) for u in (True, False)}
    return obs


def to_model_shape(obs):
    bb = [True, False]
    return [
        [[obs['symbols'][(u, d)] for d in bb] for u in bb],
        [[enc_str(k) for k in obs['keys'][u]] for u in bb],
        [enc_opt(obs['primary_symbol'][d]) for d in bb],
        enc_opt(obs['primary_key'], enc_str),
        [obs['unknown_symbols'][u] for u in bb],
        [[enc_str(k) for k in obs['unknown_keys'][u]] for u in bb],
    ]


def check_case(L, T, text, tree, parsed):
    """Listings of the parsed and of the string argument, then of a reordered and of a lengthened variant asked right
    afterwards on the same Licensing. Returns error text or None."""
    exp = expected(T, tree)
    err = None
    for arg, what in ((parsed, 'parsed'), (text, 'string')):
        obs = observe(L, arg)
        if obs != exp and not err:
            bad = [k for k in exp if obs[k] != exp[k]]
            err = '%s argument: listing %s = %r, expected %r' % (what, bad[0], obs[bad[0]], exp[bad[0]])
    for like in REPRESENTATIONS:
        # the same tree handed over as objects whose licenses are wrapped user objects, or a mixture of both kinds
        lobs = observe(L, build_expr(tree, like=like))
        if not err and lobs != exp:
            bad = [k for k in exp if lobs[k] != exp[k]]
            err = 'argument over wrapped user objects (representation %r): listing %s = %r, expected %r' % (like, bad[0], lobs[bad[0]], exp[bad[0]])
    if not err and tree[0] != 0:
        # the same licenses in another order, asked right afterwards on the same Licensing
        rev = [tree[0], list(reversed(tree[1]))]
        rexp = expected(T, rev)
        robs = observe(L, build_expr(rev))
        if robs != rexp:
            bad = [k for k in rexp if robs[k] != rexp[k]]
            err = 'reversed operands right after the original: listing %s = %r, expected %r' % (bad[0], robs[bad[0]], rexp[bad[0]])
        rep2 = [tree[0], tree[1] + [tree[1][0]]]
        r2exp = expected(T, rep2)
        r2obs = observe(L, build_expr(rep2))
        if not err and r2obs != r2exp:
            bad = [k for k in r2exp if r2obs[k] != r2exp[k]]
            err = 'repeated operand right after the original: listing %s = %r, expected %r' % (bad[0], r2obs[bad[0]], r2exp[bad[0]])
    return err


def run(rep, tier, seed):
    le = imp()
    rng = random.Random(seed)
    rep.broken = []
    rep.compared = 0
    rep.trail = []
    ntab = 300 if tier == 'thorough' else 50
    reqs, metas = [], []
    for _ in range(ntab):
        T = gen.gen_table(rng, maxn=3)
        L = make_licensing(T)
        eT = enc_table(T)
        for _ in range(20):
            text, tree, ok = parsing.gen_expression(rng, T, depth=rng.randint(1, 3), unknown_ratio=0.4)
            if not ok or ''.join(c.lower() for c in text) != text.lower():
                rep.count('skipped')
                continue
            reqs.append((9, [eT, tree]))
            metas.append((T, L, text, tree))
    res = run_model(reqs)
    for (T, L, text, tree), r in zip(metas, res):
        try:
            parsed = L.parse(text)
        except le.ExpressionError as e:
            rep.count('skipped_unparsable')
            continue
        atoms = text_order_atoms(tree)
        nontriv = len(atoms) != len(uniq(atoms)) or any(a[0] == 1 for a in atoms)
        rep.case((repr(T), text), nontrivial=nontriv, sample={'table': T, 'text': text})
        rep.count('cases')
        if enc_expr(parsed) != tree:
            rep.count('skipped_other_tree')
            continue
        err = check_case(L, T, text, tree, parsed)
        rep.trail.append({'table': T, 'text': text, 'tree': tree})
        if err:
            rep.violations.append({'key': 'listing', 'kind': 'text', 'table': T, 'text': text, 'tree': tree, 'what': err, '_at': len(rep.trail) - 1})
            continue
        rep.compared += 1
        got = to_model_shape(observe(L, parsed))
        if got != r and len(rep.broken) < 5:
            rep.broken.append('correspondence C10: table %r text %r model %r implementation %r' % (T, text, r, got))
    # already-parsed arguments built by hand or combined from several origins: the same key may carry both
    # exception flags, a WITH pair may be made of any two symbols, a key may differ from a table key in letter case only
    # (an expression parsed by another Licensing): such a key is not in the table
    TT = [[], [('mit', [], False), ('cp', [], True)], [('a', [], False), ('gpl', ['gnu gpl'], False)]]
    hand = []
    for i in range(2000 if tier == 'thorough' else 300):
        T = TT[i % len(TT)]
        if i % 3 == 0:
            tree = gen.gen_tree(rng, depth=rng.randint(1, 2), maxar=4, atoms=gen.clash_atoms())
        else:
            tree = gen.gen_tree(rng, depth=rng.randint(1, 3), maxar=4, keys=['mit', 'cp', 'a', 'gpl', 'x', 'MIT', 'Gpl', 'A', 'CP'], collide=True)
        hand.append((T, tree))
    hres = run_model([(9, [enc_table(T), tree]) for T, tree in hand])
    Ls = {repr(T): make_licensing(T) for T in TT}
    for (T, tree), r in zip(hand, hres):
        L = Ls[repr(T)]
        atoms = text_order_atoms(tree)
        rep.case(('hand', repr(T), repr(tree)), nontrivial=len(atoms) != len(uniq(atoms)),
                 sample={'table': T, 'tree': str(build_expr(tree))} if rep.distribution.get("hand_built", 0) < 3 else None)
        rep.count('hand_built')
        exp = expected(T, tree)
        obs = observe(L, build_expr(tree))
        if obs != exp:
            bad = [k for k in exp if obs[k] != exp[k]]
            rep.violations.append({'key': 'listing-parsed', 'kind': 'tree', 'table': T, 'tree': tree, 'text': str(build_expr(tree)),
                                   'what': 'hand-built expression: listing %s = %r, expected %r' % (bad[0], obs[bad[0]], exp[bad[0]])})
            continue
        rep.compared += 1
        got = to_model_shape(obs)
        if got != r and len(rep.broken) < 5:
            rep.broken.append('correspondence C10: table %r tree %r model %r implementation %r' % (T, tree, r, got))
    # None / blank
    L = le.Licensing()
    for arg in (None, '', '  '):
        rep.case(('blank', repr(arg)), nontrivial=False)
        if L.license_symbols(arg) != [] or L.license_keys(arg) != [] or L.primary_license_key(arg) is not None:
            rep.violations.append({'key': 'blank', 'kind': 'text', 'text': repr(arg), 'what': 'blank input has listings'})


def replay(payload):
    T = [tuple(x) for x in payload['table']]
    T = [(k, a, e) for k, a, e in T]
    L = make_licensing(T)
    if payload.get('kind') == 'tree':
        exp = expected(T, payload['tree'])
        obs = observe(L, build_expr(payload['tree']))
        return obs == exp, 'listings %s' % ('follow text order' if obs == exp else 'differ')
    try:
        parsed = L.parse(payload['text'])
    except Exception as ex:   # noqa
        return False, 'text does not parse: %r' % (ex,)
    err = check_case(L, T, payload['text'], payload['tree'], parsed)
    return err is None, err or 'listings follow text order'
