"""
C12 — Strict mode enforces the license WITH exception roles exactly.

Correspondence: strict and non-strict outcomes of Licensing.parse against the model on all token
strings up to a length bound (known license, known exception, unknown word, operators,
parentheses), default and simple tokenizer, and against tables with other flag assignments.
Spec oracle on the implementation: strict accepts iff non-strict accepts and the roles are right;
then the results are equal; when rejected only by strictness the error has code 101 / 102, names an
offending license and its position; non-strict outcomes do not depend on the flags of the table.
"""
import random
import itertools

from core import imp, run_model, enc_table, enc_str, make_licensing, dec_str
import gen
import parsing

RULE = ('exhaustive: all strings of length <= 5 (quick) / <= 6 (thorough) over the 8-letter token alphabet, default and '
        'simple tokenizer, against the table (license, exception) and the 3 other flag assignments; non-trivial = the '
        'string parses non-strictly and contains WITH or an exception; distinct by (tokens, simple)')
ASSUMPTIONS = ['unknown licenses count as non-exceptions']


def flag_tables():
    out = []
    for fk in (False, True):
        for fe in (False, True):
            out.append([('mit', [], fk), ('cpe', [], fe)])
    return out


def ref_with_flags(t, simple, T):
    ref = parsing.token_kinds_to_ref(t, simple)
    fl = {k: ex for k, _, ex in T}
    out = []
    for x in ref:
        if isinstance(x, tuple):
            k = dec_str(x[1][0])
            out.append(('sym', [x[1][0], 1 if fl.get(k, False) else 0]))
        else:
            out.append(x)
    return out


def offending_positions(t, simple, T):
    """(position, code, token text) of every license that breaks the roles, in the single-space rendering."""
    words = [gen.TOKEN_TEXT[x] for x in t]
    pos = []
    p = 0
    for w in words:
        pos.append(p)
        p += len(w) + 1
    fl = {'mit': T[0][2], 'cpe': T[1][2]}
    # license units: runs of unknown words are one license (default tokenizer)
    units = []
    i = 0
    while i < len(t):
        if t[i] in ('k', 'e'):
            units.append((i, i + 1, fl[words[i]]))
            i += 1
        elif t[i] == 'u':
            j = i + 1
            if not simple:
                while j < len(t) and t[j] == 'u':
                    j += 1
            units.append((i, j, False))
            i = j
        else:
            units.append((i, i + 1, None))
            i += 1
    out = []
    k = 0
    while k < len(units):
        a = units[k]
        if a[2] is not None and k + 2 < len(units) and t[units[k + 1][0]] == 'with' and units[k + 2][2] is not None:
            b = units[k + 2]
            if a[2]:
                out.append((pos[a[0]], 101, ' '.join(words[a[0]:a[1]])))
            elif not b[2]:
                out.append((pos[b[0]], 102, ' '.join(words[b[0]:b[1]])))
            k += 3
            continue
        if a[2]:
            out.append((pos[a[0]], 101, ' '.join(words[a[0]:a[1]])))
        k += 1
    return out


def check_one(t, simple, T, L, base_nonstrict):
    s = gen.render_tokens(t)
    ns = parsing.parse_outcome(L, s, strict=False, simple=simple)
    st = parsing.parse_outcome(L, s, strict=True, simple=simple)
    ref = ref_with_flags(t, simple, T)
    roles = parsing.roles_ok(ref)
    if ns[0] == 0:
        if roles:
            if st != ns:
                return 'roles are right but strict parsing differs from non-strict: %r vs %r' % (st, ns), ns, st
        else:
            if st[0] == 0:
                return 'strict parsing accepted wrong roles', ns, st
            if st[0] != 1 or st[1] not in (101, 102):
                return 'strict rejection is not a parse error 101/102: %r' % (st,), ns, st
            offs = offending_positions(t, simple, T)
            if (st[3], st[1], dec_str(st[2])) not in offs:
                return 'strict error %r does not name an offending license (offenders %r)' % (st, offs), ns, st
    else:
        if st[0] == 0:
            return 'strict parsing accepted what non-strict parsing rejects', ns, st
    # flags do not matter to non-strict parsing
    if base_nonstrict is not None:
        a = ns if ns[0] != 0 or not ns[1] else [0, [parsing.strip_flags(ns[1][0])]]
        b = base_nonstrict if base_nonstrict[0] != 0 or not base_nonstrict[1] else [0, [parsing.strip_flags(base_nonstrict[1][0])]]
        if a != b:
            return 'non-strict outcome depends on the flags of the table: %r vs %r' % (ns, base_nonstrict), ns, st
    return None, ns, st


def run(rep, tier, seed):
    le = imp()
    rep.broken = []
    rep.compared = 0
    for flags in itertools.product((False, True), repeat=3):
        for text, keys in ALIAS_TEXTS:
            rep.case(('alias', flags, text), nontrivial=True, sample=None)
            rep.count('alias_table_cases')
            err = alias_case(flags, text, keys, le)
            if err:
                rep.violations.append({'key': 'strict-alias', 'kind': 'alias-table', 'flags': list(flags), 'text': text, 'keys': keys, 'what': err})
    rep.trail = []      # one entry per Licensing used so far: other Licensing objects are the only shared context
    maxlen = 6 if tier == 'thorough' else 5
    tables = flag_tables()
    Ls = [make_licensing(T) for T in tables]
    Lloose = [make_licensing(T, form='loose') for T in tables]
    strings = list(gen.token_strings(maxlen))
    for simple in (False, True):
        base = {}
        for ti, (T, L) in enumerate(zip(tables, Ls)):
            # the model only on the table (license, exception) and its mirror
            model = None
            if ti in (1, 2):
                encT = enc_table(T)
                reqs = []
                for t in strings:
                    s = enc_str(gen.render_tokens(t))
                    reqs.append((4, [encT, 0, 0, int(simple), s]))
                    reqs.append((4, [encT, 0, 1, int(simple), s]))
                model = run_model(reqs)
            rep.trail.append({'table': T, 'tokens': list(strings[-1]), 'simple': simple})
            for i, t in enumerate(strings):
                err, ns, st = check_one(t, simple, T, L, base.get(t))
                if ti == 0:
                    base[t] = ns
                nontriv = ns[0] == 0 and ('with' in t or 'e' in t)
                rep.case(('tok', t, simple, ti), nontrivial=nontriv,
                         sample={'text': gen.render_tokens(t), 'table': T, 'nonstrict': ns[:2], 'strict': st[:2]}
                         if nontriv and st[0] == 1 and len(t) == maxlen else None)
                rep.count('nonstrict_ok' if ns[0] == 0 else 'nonstrict_rejected')
                if ns[0] == 0:
                    rep.count('strict_ok' if st[0] == 0 else 'strict_rejected_%s' % (st[1] if st[0] == 1 else 'other'))
                if not err and ('with' in t or i % 4 == 0):
                    # the same flags given as other values of the same truth ('' / None / 0 for no, 1 / 'yes' for yes)
                    e2, ns2, st2 = check_one(t, simple, T, Lloose[ti], base.get(t))
                    rep.count('loose_flag_values')
                    if e2 or (ns2, st2) != (ns, st):
                        rep.violations.append({'key': 'strict', 'kind': 'tokens', 'tokens': list(t), 'simple': simple, 'loose': True,
                                               'table': T, 'base_table': tables[0], 'text': gen.render_tokens(t),
                                               'what': 'exception flags given as \'\' / None / 0 / 1 / \'yes\': %s'
                                                       % (e2 or 'outcomes %r, with True / False %r' % ((ns2, st2), (ns, st)))})
                        continue
                if err:
                    rep.violations.append({'key': 'strict', 'kind': 'tokens', 'tokens': list(t), 'simple': simple,
                                           'table': T, 'base_table': tables[0], 'text': gen.render_tokens(t), 'what': err,
                                           '_at': len(rep.trail) - 1})
                    continue
                if model is not None:
                    rep.compared += 2
                    if (model[2 * i] != ns or model[2 * i + 1] != st) and len(rep.broken) < 5:
                        rep.broken.append('correspondence C12: %r simple=%r table %r model (%r, %r) implementation (%r, %r)'
                                          % (gen.render_tokens(t), simple, T, model[2 * i], model[2 * i + 1], ns, st))


# texts over the alias table with the keys they name, in text order
ALIAS_TEXTS = [('mit with cp exc', ['mit', 'cp-exc']), ('mit and cp exc', ['mit', 'cp-exc']), ('cp exc with mit', ['cp-exc', 'mit']),
               ('mit with cp exc 2.0 or cp exc', ['mit', 'cp-2.0', 'cp-exc']), ('(cp exc) or mit', ['cp-exc', 'mit']),
               ('MIT WITH  CP  EXC', ['mit', 'cp-exc']), ('mit with unknown thing', ['mit', 'unknown thing']),
               ('cp exc 2.0 with cp exc', ['cp-2.0', 'cp-exc']), ('mit lic with cp exc', ['mit', 'cp-exc'])]


def alias_table(flags):
    # the shorter alias is the beginning of a longer name declared before it
    return [('mit', ['mit lic'], flags[0]), ('cp-2.0', ['cp exc 2.0'], flags[1]), ('cp-exc', ['cp exc'], flags[2])]


def alias_case(flags, text, keys, le):
    """Names spelled through aliases: strict parsing accepts exactly when the non-strict tree has every license in its role
    (flags of the table; unknown licenses are not exceptions). Returns error text or None."""
    T = alias_table(flags)
    L = make_licensing(T)
    try:
        tree = L.parse(text, strict=False)
    except le.ExpressionError as ex:
        return 'non-strict parsing refuses the text: %s' % ex
    if L.license_keys(tree, unique=False) != keys:
        return 'the text names %r, non-strict parsing found %r' % (keys, L.license_keys(tree, unique=False))
    byflag = {k: f for k, _, f in T}
    bad = []
    for a in tree.get_literals():
        if isinstance(a, le.LicenseWithExceptionSymbol):
            if byflag.get(a.license_symbol.key, False):
                bad.append(a.license_symbol.key)
            if not byflag.get(a.exception_symbol.key, False):
                bad.append(a.exception_symbol.key)
        elif byflag.get(a.key, False):
            bad.append(a.key)
    try:
        st = L.parse(text, strict=True)
        accepted = True
    except le.ExpressionError:
        accepted = False
    if accepted != (not bad):
        return 'strict parsing accepted=%r, licenses in a wrong role: %r (non-strict tree %r)' % (accepted, bad, tree)
    if accepted and repr(st) != repr(tree):
        return 'strict result %r differs from the non-strict one %r' % (st, tree)
    return None


def replay(payload):
    if payload.get('kind') == 'alias-table':
        err = alias_case(tuple(payload['flags']), payload['text'], payload['keys'], imp())
        return err is None, err or 'strict rule holds over the alias table'
    T = [tuple(x) for x in payload['table']]
    T = [(k, a, e) for k, a, e in T]
    L = make_licensing(T, form='loose' if payload.get('loose') else None)
    base = None
    if payload.get('base_table') is not None:
        T0 = [(k, a, e) for k, a, e in payload['base_table']]
        base = parsing.parse_outcome(make_licensing(T0), gen.render_tokens(tuple(payload['tokens'])), strict=False,
                                     simple=payload.get('simple', False))
    err, ns, st = check_one(tuple(payload['tokens']), payload.get('simple', False), T, L, base)
    return err is None, (err or 'strict rule holds') + ' nonstrict=%r strict=%r' % (ns, st)
