"""
C01 — Parsing never drops, duplicates or alters any word of the input.

Correspondence: Licensing.tokenize triples and the literals of Licensing.parse against the model
on generated tables x texts (default and simple tokenizer).
Spec oracle on the implementation: whenever parsing succeeds, the lower-cased words of the input
(split on white space and parentheses) are exactly the concatenation of the words the tokens stand
for (operator / parenthesis: itself; unknown license: the words of its key verbatim; known license:
the words of its key or of one of its aliases), and the licenses of the returned expression are
the license tokens in text order.
"""
import random

from core import imp, run_model, enc_table, enc_str, make_licensing, dec_str, enc_atom, outcome_of, enc_expr, enc_opt
import gen
import parsing

RULE = ('seeded tables (1-4 entries, names of 1-3 words from a colliding pool: shared leading / trailing words, names '
        'containing and / or / with, aliases with parentheses, U+0130, Greek capitals) x texts built from name variants, '
        'unknown words (incl. words extending known words) and operators with random Unicode white space; plus all tables '
        'of two names over a 4-word pool x texts of <= 5 words (thorough: <= 6); non-trivial = parsing succeeds and the '
        'text has >= 2 words; distinct by (table, text, simple)')
ASSUMPTIONS = ['texts whose per-character lower-casing differs from str.lower() (final sigma) are skipped and counted']


def token_words(tok, pos, text, T):
    """Candidate word lists a token may stand for; returns a list of lower-cased word lists."""
    le = imp()
    if isinstance(tok, int):
        return None
    return None


def account(L, T, text, simple):
    """Spec oracle. Returns (error or None, outcome description)."""
    le = imp()
    try:
        toks = list(L.tokenize(text, simple=simple))
        expr = L.parse(text, simple=simple)
    except le.ExpressionError:
        return None, 'rejected'
    except le.ParseError:
        return None, 'rejected'
    if expr is None:
        return None, 'blank'
    words = gen.lw(text)
    names_by_key = {}
    for k, als, _ in T:
        names_by_key.setdefault(k, []).append(gen.lw(k))
        for a in als:
            if a:
                names_by_key[k].append(gen.lw(a))
    known = {k for k, _, _ in T}
    lic_tokens = []

    def eat_symbol(sym, pos):
        """All positions at which the words standing for this symbol may end when they start at pos (a known license may be
        written by its key or by any alias: several candidates can fit, e.g. key 'gnu' and alias 'gnu only')."""
        out = set()
        if sym.key in known and isinstance(sym, le.LicenseSymbol):
            for cand in names_by_key[sym.key]:
                if cand and words[pos:pos + len(cand)] == cand:
                    out.add(pos + len(cand))
            return out
        cand = [w.lower() for w in gen.words_of(sym.key)]
        raw = gen.words_of(sym.key)
        if words[pos:pos + len(cand)] == cand:
            # verbatim: compare with the original words of the text
            orig = gen.words_of(text)[pos:pos + len(cand)]
            if orig == raw:
                out.add(pos + len(cand))
        return out

    # the set of word positions reachable after each token (the statement is existential over the names used)
    reach = {0}
    for tok, tstr, tpos in toks:
        nxt = set()
        if isinstance(tok, le.LicenseWithExceptionSymbol):
            for pos in reach:
                for p1 in eat_symbol(tok.license_symbol, pos):
                    if p1 < len(words) and words[p1] == 'with':
                        nxt |= eat_symbol(tok.exception_symbol, p1 + 1)
            if not nxt:
                return 'WITH token %r does not account for the words at %r' % (tstr, sorted(reach)), 'ok'
            lic_tokens.append(tok)
        elif isinstance(tok, le.BaseSymbol):
            for pos in reach:
                nxt |= eat_symbol(tok, pos)
            if not nxt:
                return 'license token %r (%r) does not account for the words %r' % (tstr, tok, words[min(reach):min(reach) + 4]), 'ok'
            lic_tokens.append(tok)
        else:
            kw = {le.TOKEN_AND: 'and', le.TOKEN_OR: 'or', le.TOKEN_LPAR: '(', le.TOKEN_RPAR: ')'}.get(tok)
            nxt = {pos + 1 for pos in reach if kw is not None and pos < len(words) and words[pos] == kw}
            if not nxt:
                return 'operator token %r does not match the word at %r' % (tstr, sorted(reach)), 'ok'
        reach = nxt
    if len(words) not in reach:
        return 'words %r of the input are not accounted for by any token' % (words[max(reach):],), 'ok'
    lits = expr.get_literals()
    if len(lits) != len(lic_tokens) or any(a != b for a, b in zip(lits, lic_tokens)):
        return 'licenses of the expression %r differ from the license tokens %r' % (lits, lic_tokens), 'ok'
    return None, 'ok'


def make_text(rng, T):
    names = [n for n, _ in gen.names_of(T)]
    parts = []
    for _ in range(rng.randint(1, 7)):
        r = rng.random()
        if r < 0.45 and names:
            parts.append(gen.vary_name(rng, rng.choice(names)))
        elif r < 0.65:
            parts.append(rng.choice(gen.UNKNOWN_WORDS))
        elif r < 0.9:
            parts.append(gen.vary_case(rng, rng.choice(['and', 'or', 'with'])))
        else:
            parts.append(rng.choice(['(', ')']))
    text = gen.gen_ws(rng, 0, 1)
    for j, p in enumerate(parts):
        if j:
            text += gen.gen_ws(rng, 1, 3) if (p not in '()' and parts[j - 1] not in '()') else gen.gen_ws(rng, 0, 2)
        text += p
    return text + gen.gen_ws(rng, 0, 1)


def enc_triple(le, t):
    tok, s, p = t
    if isinstance(tok, le.BaseSymbol):
        ty = [0, enc_atom(tok)]
    else:
        ty = [{le.TOKEN_AND: 1, le.TOKEN_OR: 2, le.TOKEN_LPAR: 3, le.TOKEN_RPAR: 4}[tok]]
    return [ty, enc_str(s), p]


def interleaved(le, A, B):
    """Two Licensing.tokenize() generators drawn from alternately (A first): each must yield what it yields when drawn
    alone. A and B are (Licensing, text, simple); both texts tokenize without error when alone. Returns error text or None."""
    alone = [[enc_triple(le, t) for t in L.tokenize(text, simple=simple)] for L, text, simple in (A, B)]
    gens = [iter(L.tokenize(text, simple=simple)) for L, text, simple in (A, B)]
    got = [[], []]
    live = [True, True]
    try:
        while any(live):
            for k in (0, 1):
                if live[k]:
                    try:
                        got[k].append(enc_triple(le, next(gens[k])))
                    except StopIteration:
                        live[k] = False
    except Exception as ex:   # noqa
        return 'two token streams drawn alternately: %s: %s' % (type(ex).__name__, ex)
    for k in (0, 1):
        if got[k] != alone[k]:
            return ('two token streams drawn alternately: the stream of %r yields %r, alone it yields %r'
                    % ((A, B)[k][1], [dec_str(x[1]) for x in got[k]], [dec_str(x[1]) for x in alone[k]]))
    return None


def run(rep, tier, seed):
    le = imp()
    rng = random.Random(seed)
    rep.broken = []
    rep.compared = 0
    cases = []
    ntab = 500 if tier == 'thorough' else 80
    for _ in range(ntab):
        T = gen.gen_table(rng, maxn=4)
        for _ in range(25):
            cases.append((T, make_text(rng, T), rng.random() < 0.25))
    # small exhaustive scope: two names over a 4-word pool, texts up to 5/6 words
    import itertools
    pool = ['gnu', 'gpl', '2.0', 'or']
    nm = [' '.join(t) for k in (1, 2, 3) for t in itertools.product(pool, repeat=k) if ' '.join(t) != 'or']
    maxw = 6 if tier == 'thorough' else 5
    for _ in range(300 if tier == 'thorough' else 60):
        a, b = rng.sample(nm, 2)
        T = [(a, [], False), (b, [], False)]
        if not gen.table_ok(T):
            continue
        for _ in range(30):
            ws = [rng.choice(pool + ['mit']) for _ in range(rng.randint(1, maxw))]
            cases.append((T, ' '.join(ws), False))
    # chains: names that share their last / first word (also one-character words), texts that run through the chain
    cw = ['a', 'b', 'c', 'd', '2', 'gnu', 'gpl', 'v']
    for _ in range(600 if tier == 'thorough' else 120):
        ws = [rng.choice(cw) for _ in range(rng.randint(4, 7))]
        cuts = sorted(rng.sample(range(1, len(ws) - 1), rng.randint(1, min(2, len(ws) - 2))))
        names, st = [], 0
        for cpos in cuts + [len(ws) - 1]:
            names.append(' '.join(ws[st:cpos + 1]))     # consecutive names share the word at the cut
            st = cpos
        T = [(n, [], False) for n in dict.fromkeys(names)] + [('x', [], False)]
        if not gen.table_ok(T):
            continue
        base = ' '.join(ws)
        for text in (base, base + ' or x', 'x or ' + base, 'x and (' + base + ') or x', ' '.join(ws[1:]) + ' or x'):
            cases.append((T, text, False))
            rep.count('chain_texts')
    # words with characters outside the license-key alphabet: no tokenizer may drop or shorten them (the text is then
    # refused, or every word is accounted for)
    odd = ['mit@', '"mit"', 'bsd;', '/', '~bsd', 'gpl*', 'a,b', "it's", 'x=y', 'mit!', '#1', 'é́x', '[mit]', 'gpl&co', '%', 'a|b']
    Todd = [('mit', [], False), ('bsd', [], False), ('gpl', ['gnu gpl'], False)]
    for w in odd:
        for tmpl in ('%s', '%s or bsd', 'mit or %s', 'mit or bsd %s', '(%s) and gpl', 'gnu gpl with %s', 'mit %s or bsd'):
            for simple in (False, True):
                cases.append((Todd, tmpl % w, simple))
                rep.count('odd_character_texts')
    # interrupted names: a multi-word name (some holding an operator word) with one to three foreign words put between two of
    # its words, alone and inside an expression: the foreign words must still be accounted for
    Tint = [('GPL-2.0', [], False), ('GPL-2.0-or-later', ['GPL 2.0 or later'], False), ('LGPL', ['lesser or library gpl', 'gnu lesser gpl'], False),
            ('mit', ['mit and x11 license'], False), ('cp', ['classpath with runtime exception'], True)]
    for name in ('GPL 2.0 or later', 'lesser or library gpl', 'gnu lesser gpl', 'mit and x11 license', 'classpath with runtime exception'):
        ws = name.split()
        for cut in range(1, len(ws)):
            for k in (1, 2, 3):
                for _ in range(2 if tier == 'quick' else 6):
                    ins = [rng.choice(['a', 'much', 'the', 'one', 'my', 'own', 'zz']) for _ in range(k)]
                    body = ' '.join(ws[:cut] + ins + ws[cut:])
                    for text in (body, 'mit and ' + body, body + ' or mit', 'mit or (' + body + ')'):
                        cases.append((Tint, gen.vary_case(rng, text) if rng.random() < 0.3 else text, False))
                        rep.count('interrupted_name_texts')
    # damaged valid expressions (one local malformation: a dropped operator, an operand or a WITH pair after ")", ...): when
    # such a text is accepted anyway, every word must still be accounted for
    from props import c03
    for _ in range(12000 if tier == 'thorough' else 1500):
        t, kind = c03.malform(rng, c03.valid_tokens(rng, rng.randint(1, 3)))
        if len(t) <= 24:
            cases.append((gen.TOKEN_TABLE, gen.render_tokens(t), rng.random() < 0.3))
            rep.count('damaged_expressions')
    # a license, or a WITH pair, directly after a closing parenthesis at the start of an enclosing group
    for inner in ('mit', 'mit and zz', 'zz or mit', 'mit with cpe'):
        for tail in ('mit with cpe', 'zz with cpe', 'mit', 'zz zz', 'zz with cpe or mit'):
            for tmpl in ('((%s) %s)', 'zz and ((%s) %s or mit)', '(((%s)) %s) and zz', '( (%s) %s )', '((%s) %s) or ((%s) %s)'):
                text = tmpl % ((inner, tail) * (tmpl.count('%s') // 2))
                for simple in (False, True):
                    cases.append((gen.TOKEN_TABLE, text, simple))
                    rep.count('operand_after_group_texts')
    # tables with the same keys and flags and other aliases, used one after the other in this process: each Licensing
    # recognises its own names only
    fam = [[('gpl', ['gpl or later', 'gnu gpl'], False), ('bsd', [], False)], [('gpl', [], False), ('bsd', [], False)],
           [('gpl', ['gpl v2'], False), ('bsd', ['new bsd'], False)]]
    for text in ('gpl or later', 'bsd and (gpl or later)', 'gnu gpl and bsd', 'gpl v2 or new bsd', 'gpl or bsd', 'new bsd with gnu gpl'):
        for T in fam + fam[::-1]:
            cases.append((T, text, False))
            rep.count('same_keys_other_aliases')
    # regression inputs of the repaired defects
    cases += [([('GNU GPL', [], False), ('GPL 2.0', [], False)], 'GNU GPL 2.0 or mit', False),
              ([('GPL 2.0', [], False), ('mit', [], False)], 'mit or gpl    2.0', False),
              ([('mit', [], False)], 'İ and mit', False),
              ([('gpl', ['GNU (GPL)'], False)], 'gnu ( gpl ) or x', False)]
    reqs, metas = [], []
    cache = {}
    for T, text, simple in cases:
        if ''.join(c.lower() for c in text) != text.lower():
            rep.count('skipped_sigma')
            continue
        key = repr(T)
        if key not in cache:
            cache[key] = (make_licensing(T), enc_table(T))
        L, eT = cache[key]
        reqs.append((3, [eT, 0, int(simple), enc_str(text)]))
        reqs.append((4, [eT, 0, 0, int(simple), enc_str(text)]))
        metas.append((T, L, text, simple))
    res = run_model(reqs)
    rep.trail = []      # (table, text) of every case so far: other Licensing objects are the only shared context
    prev = None
    for i, (T, L, text, simple) in enumerate(metas):
        rep.trail.append({'table': T, 'text': text, 'simple': simple})
        err, what = account(L, T, text, simple)
        rep.case((repr(T), text, simple), nontrivial=(what == 'ok' and len(gen.lw(text)) >= 2),
                 sample={'table': T, 'text': text, 'simple': simple, 'outcome': what})
        rep.count('outcome_' + what)
        if err:
            rep.violations.append({'key': 'words', 'kind': 'text', 'table': T, 'text': text, 'simple': simple, 'what': err,
                                   '_at': len(rep.trail) - 1})
            continue
        # correspondence on the token triples and on the parse outcome
        def enc_tok(t):
            tok, s, p = t
            if isinstance(tok, le.BaseSymbol):
                ty = [0, enc_atom(tok)]
            else:
                ty = [{le.TOKEN_AND: 1, le.TOKEN_OR: 2, le.TOKEN_LPAR: 3, le.TOKEN_RPAR: 4}[tok]]
            return [ty, enc_str(s), p]
        def tokenize():
            try:
                return [enc_tok(t) for t in L.tokenize(text, simple=simple)]
            except le.ParseError as e:
                raise le.ExpressionParseError(token_type=e.token_type, token_string=e.token_string,
                                              position=e.position, error_code=e.error_code)
        gt = outcome_of(tokenize)
        gp = parsing.parse_outcome(L, text, simple=simple)
        # the token stream of this text and the one of the previous text (of this or another Licensing), drawn alternately
        if gt[0] == 0 and prev is not None and i % 3 == 0:
            rep.count('interleaved_stream_pairs')
            e2 = interleaved(le, (L, text, simple), prev[1:])
            if e2:
                rep.violations.append({'key': 'streams', 'kind': 'streams', 'table': T, 'text': text, 'simple': simple, 'what': e2,
                                       'table2': prev[0], 'text2': prev[2], 'simple2': prev[3]})
                prev = None
                continue
        prev = (T, L, text, simple) if gt[0] == 0 else prev
        rep.compared += 2
        if (res[2 * i] != gt or res[2 * i + 1] != gp) and len(rep.broken) < 5:
            rep.broken.append('correspondence C01: table %r text %r simple=%r model (%r, %r) implementation (%r, %r)'
                              % (T, text, simple, res[2 * i], res[2 * i + 1], gt, gp))


def replay(payload):
    T = [tuple(x) for x in payload['table']]
    T = [(k, a, e) for k, a, e in T]
    L = make_licensing(T)
    if payload.get('kind') == 'streams':
        T2 = [(k, a, e) for k, a, e in payload['table2']]
        L2 = L if T2 == T else make_licensing(T2)
        err = interleaved(imp(), (L, payload['text'], payload.get('simple', False)), (L2, payload['text2'], payload.get('simple2', False)))
        return err is None, err or 'each stream yields what it yields alone'
    err, what = account(L, T, payload['text'], payload.get('simple', False))
    return err is None, err or ('every word accounted for (%s)' % what)
