"""
C19 — Answers depend only on table and input; arguments are never mutated.

Correspondence: random histories of API calls on shared Licensing instances and shared expression
objects against the model's world semantics (same observations, same final store of expressions).
Spec oracle on the implementation: every answer equals the answer of a freshly built Licensing with
the same table; after every call every live expression object renders and compares exactly as when
it was created; parsing an already parsed expression returns that very object.
"""
import random

from core import (imp, run_model, enc_table, enc_str, make_licensing, dec_str, enc_expr, build_expr, outcome_of,
                  enc_opt, enc_exception)
import gen
import parsing

RULE = ('seeded histories of 10-30 calls (construct a Licensing from a valid or ambiguous table, parse texts in all flag '
        'combinations, parse an expression object, key listings, simplify, dedup, is_equivalent, contains, render) over up to '
        '3 shared instances and all expression objects produced so far; non-trivial = the history has >= 2 instances or '
        'reuses an instance after a failing call; distinct by the history')
ASSUMPTIONS = ['class attributes rewritten by BooleanAlgebra.__init__ are not read by any modelled function; interleaved '
               'constructions are part of the generated histories']

TEXTS = ['gpl 2.0 or mit', 'mit or gpl 2.0', 'mit and gpl 2.0 and mit', 'mit and gpl 2.0', '(mit or foo) and bar', 'bar and (foo or mit)',
         'gplv2 and x mit', 'gnu gpl v2 or mit', 'mit', 'mit or gpl 2.0', 'MIT and (gnu gpl v2 with classpath)', 'foo bar', 'mit mit', '()', 'a and (or b)',
         'classpath', 'mit with classpath', 'foo', 'FOO', 'Foo or mit', 'foo and FOO', 'BAR and (FOO or mit)', 'x with mit', 'gpl 2.0 or later or foo', '', '  ', 'mit or', 'a,b',
         # one-word aliases: known to the default tokenizer only, whatever was built on the instance before
         'gplv2', 'gplv2 or mit', 'GPLv2 with classpath', 'mit and GPLV2',
         # repeated licenses below a level that has none
         'mit or (gpl 2.0 and gpl 2.0 and foo)', 'foo and (mit or bar or mit) and gpl 2.0', 'mit or (gpl 2.0 and (foo or foo or mit))',
         'gpl 2.0 with classpath or (mit and gpl 2.0 with classpath and mit and foo)', '(mit and mit) or (foo and foo)']


TEXT_OPS = ['validate_text', 'keys_text', 'unknown_text', 'equiv_text', 'contains_text', 'dedup_text', 'symbols_text', 'primary_text']


def gen_history(rng):
    ops = []
    ninst = 0
    nexpr_upper = 0
    n = rng.randint(10, 30)
    tables = [[('mit', [], False), ('GPL 2.0', ['GNU GPL v2'], False), ('classpath', [], True)],
              [('mit', ['x mit'], True)], [], [('a', [], False), ('A', [], False)],
              # the same names with other exception flags: instances must not influence one another
              [('mit', [], True), ('GPL 2.0', ['GNU GPL v2'], False), ('classpath', [], False)],
              [('mit', [], False), ('GPL 2.0', ['GNU GPL v2'], True), ('classpath', [], True)],
              # the same keys and flags with other aliases
              [('mit', ['x mit'], False), ('GPL 2.0', ['gplv2'], False), ('classpath', [], True)],
              [('mit', [], False), ('GPL 2.0', [], False), ('classpath', ['GNU GPL v2'], True)],
              [('gpl 2.0', [], False), ('gpl', ['gpl 2.0'], False)],
              # operator words as names: refused whatever was created before in the process
              [('or', [], False), ('mit', [], False)], [('gpl', ['with'], False)], [('mit', [], False), ('AND', [], False)]]
    ops.append(('new', rng.choice(tables[:1] + tables[5:9])))
    ninst = 1
    for _ in range(n):
        r = rng.random()
        if r < 0.12:
            ops.append(('new', rng.choice(tables) if rng.random() < 0.8 else gen.gen_table(rng, maxn=3)))
            ninst += 1   # upper bound: refused tables do not create an instance
        elif r < 0.2:
            # queries on texts that do not go through parse() of the harness: compared with a fresh instance only
            ops.append((rng.choice(TEXT_OPS), rng.randrange(ninst),
                        rng.random() < 0.4, rng.choice(TEXTS), rng.choice(TEXTS)))
        elif r < 0.5 or nexpr_upper == 0:
            ops.append(('parse', rng.randrange(ninst), rng.random() < 0.3, rng.random() < 0.3, rng.random() < 0.3, rng.choice(TEXTS)))
            nexpr_upper += 1
        else:
            k = rng.choice(['parse_expr', 'keys', 'keys', 'unknown', 'unknown', 'simplify', 'dedup', 'equiv', 'contains', 'render'])
            h = rng.randrange(nexpr_upper)
            if k in ('equiv', 'contains'):
                ops.append((k, rng.randrange(ninst), h, rng.randrange(nexpr_upper)))
            elif k in ('simplify', 'render'):
                ops.append((k, h))
                if k == 'simplify':
                    nexpr_upper += 1
            else:
                ops.append((k, rng.randrange(ninst), h))
                if k == 'dedup':
                    nexpr_upper += 1
    return ops


def run_history(ops, le):
    """Runs on real shared objects. Returns (error or None, observations, model ops, final exprs)."""
    insts, tables, exprs, snaps = [], [], [], []
    obs, mops = [], []
    err = None

    def snap_of(e):
        """Rendering and tree of a new expression object; the rendering is a function of the tree alone."""
        nonlocal err
        from props import c05
        want = c05.indep_render(e, lambda sym: sym.key, False, le)
        if (str(e) != want or e.render() != want or e.render('{symbol.key}') != want) and not err:
            err = 'a new expression renders as %r / %r, its tree renders as %r' % (str(e), e.render(), want)
        return (str(e), enc_expr(e))

    def check_unchanged(where):
        nonlocal err
        for e, snap in zip(exprs, snaps):
            if (str(e), enc_expr(e)) != snap and not err:
                err = 'an expression object changed after %s: %r -> %r' % (where, snap[0], str(e))

    for op in ops:
        kind = op[0]
        if kind == 'new':
            T = op[1]
            mops.append([0, enc_table(T)])
            try:
                insts.append(make_licensing(T))
                tables.append(T)
                obs.append([0, [0, len(insts) - 1]])
                accepted = True
            except Exception as ex:   # noqa
                obs.append([0, enc_exception(ex)])
                accepted = False
            if has_keyword_name(T) and not err:
                want = pristine_new(T)
                if want != accepted:
                    err = 'Licensing(%r) accepted=%r here, accepted=%r in a fresh interpreter' % (T, accepted, want)
        elif kind == 'parse':
            _, i, va, st, si, s = op
            mops.append([1, i, int(va), int(st), int(si), enc_str(s)])
            if i >= len(insts):
                obs.append([9])
                continue
            L = insts[i]
            got = outcome_of(lambda: L.parse(s, validate=va, strict=st, simple=si))
            fresh = outcome_of(lambda: make_licensing(tables[i]).parse(s, validate=va, strict=st, simple=si))
            cg = got if got[0] != 0 else [0, None if got[1] is None else enc_expr(got[1])]
            cf = fresh if fresh[0] != 0 else [0, None if fresh[1] is None else enc_expr(fresh[1])]
            if cg != cf and not err:
                err = 'parse(%r) on a used Licensing %r differs from a fresh one %r' % (s, cg, cf)
            if got[0] == 0:
                if got[1] is None:
                    obs.append([1, [0, []]])
                else:
                    exprs.append(got[1])
                    snaps.append(snap_of(got[1]))
                    obs.append([1, [0, [len(exprs) - 1]]])
            else:
                g = got
                if g[0] == 2 and g[1][0] == 2:
                    try:
                        g = [2, [2, [enc_str(k) for k in make_licensing(tables[i]).unknown_license_keys(s, strict=st, simple=si)]]]
                    except le.ExpressionError as ex:
                        # the used instance reported unknown keys where a fresh one refuses the text
                        if not err:
                            err = 'parse(%r) on a used Licensing reports unknown keys, a fresh one raises %r' % (s, str(ex)[:80])
                obs.append([1, g])
        elif kind in TEXT_OPS:
            _, i, flag, s1, s2 = op
            if i < len(insts):
                L, F = insts[i], make_licensing(tables[i])
                def ask(X):
                    if kind == 'validate_text':
                        info = X.validate(s1, strict=flag)
                        return [info.normalized_expression, list(info.errors), list(info.invalid_symbols)]
                    if kind == 'keys_text':
                        return X.license_keys(s1, simple=flag)
                    if kind == 'unknown_text':
                        return X.unknown_license_keys(s1, simple=flag)
                    if kind == 'equiv_text':
                        return X.is_equivalent(s1, s2, simple=flag)
                    if kind == 'contains_text':
                        return X.contains(s1, s2, simple=flag)
                    if kind == 'dedup_text':
                        return enc_expr(X.dedup(s1))
                    if kind == 'symbols_text':
                        return [repr(x) for x in X.license_symbols(s1, unique=flag, decompose=not flag)]
                    return X.primary_license_key(s1, simple=flag)
                a, b = outcome_of(lambda: ask(L), lambda x: x), outcome_of(lambda: ask(F), lambda x: x)
                if a != b and not err:
                    err = '%s(%r, %r) on a used Licensing %r differs from a fresh one %r' % (kind, s1, flag, a, b)
        else:
            if kind in ('simplify', 'render'):
                h = op[1]
                mops.append([5 if kind == 'simplify' else 9, h])
                if h >= len(exprs):
                    obs.append([9])
                    continue
                if kind == 'simplify':
                    r = exprs[h].simplify()
                    exprs.append(r)
                    snaps.append(snap_of(r))
                    obs.append([1, [0, [len(exprs) - 1]]])
                else:
                    obs.append([4, enc_str(str(exprs[h]))])
            else:
                i, h = op[1], op[2]
                code = {'parse_expr': 2, 'keys': 3, 'unknown': 4, 'dedup': 6, 'equiv': 7, 'contains': 8}[kind]
                mops.append([code, i, h] + ([op[3]] if kind in ('equiv', 'contains') else []))
                if i >= len(insts) or h >= len(exprs) or (kind in ('equiv', 'contains') and op[3] >= len(exprs)):
                    obs.append([9])
                    continue
                L, e = insts[i], exprs[h]
                F = make_licensing(tables[i])
                if kind == 'parse_expr':
                    r = L.parse(e)
                    if r is not e and not err:
                        err = 'parse of an expression object did not return that object'
                    # whatever the options: an expression object is not text to be read again
                    for kw in ({'strict': True}, {'validate': True, 'strict': True}, {'simple': True, 'strict': True}, {'simple': True}):
                        try:
                            r2 = L.parse(e, **kw)
                        except le.ExpressionError as ex:
                            # validate=True may report unknown keys of the object: that is an answer, not a re-reading
                            r2 = e if ('validate' in kw and str(ex).startswith('Unknown license key')) else ex
                        if r2 is not e and not err:
                            err = 'parse(<expression object>, %r) did not return that object: %r' % (kw, r2)
                    obs.append([1, [0, [h]]])
                elif kind == 'keys':
                    r = L.license_keys(e)
                    if r != F.license_keys(e) and not err:
                        err = 'license_keys differs from a fresh Licensing'
                    # the listings of an object do not depend on the options meant for reading a text
                    for kw in ({'strict': True}, {'simple': True}, {'strict': True, 'simple': True}):
                        r2 = outcome_of(lambda: L.license_keys(e, **kw), lambda x: x)
                        if r2 != [0, r] and not err:
                            err = 'license_keys(<expression object>, %r) = %r, without options %r' % (kw, r2, r)
                    obs.append([2, [enc_str(k) for k in r]])
                elif kind == 'unknown':
                    r = L.unknown_license_keys(e)
                    if r != F.unknown_license_keys(e) and not err:
                        err = 'unknown_license_keys differs from a fresh Licensing'
                    obs.append([2, [enc_str(k) for k in r]])
                elif kind == 'dedup':
                    r = L.dedup(e)
                    if enc_expr(r) != enc_expr(F.dedup(e)) and not err:
                        err = 'dedup differs from a fresh Licensing'
                    exprs.append(r)
                    snaps.append(snap_of(r))
                    obs.append([1, [0, [len(exprs) - 1]]])
                else:
                    e2 = exprs[op[3]]
                    f = L.is_equivalent if kind == 'equiv' else L.contains
                    g = F.is_equivalent if kind == 'equiv' else F.contains
                    r = f(e, e2)
                    if r != g(e, e2) and not err:
                        err = '%s differs from a fresh Licensing' % kind
                    obs.append([3, 1 if r else 0])
        check_unchanged(repr(op)[:80])
    return err, obs, mops, [enc_expr(e) for e in exprs]


def run(rep, tier, seed):
    le = imp()
    rng = random.Random(seed)
    rep.broken = []
    rep.compared = 0
    n = 2500 if tier == 'thorough' else 250
    hist = [gen_history(rng) for _ in range(n)]
    # directed: the same text asked twice of one instance under two different flag combinations (every ordered pair), and a
    # text asked after one of its case / spacing variants
    T0 = [('mit', [], False), ('GPL 2.0', ['GNU GPL v2', 'gplv2'], False), ('classpath', [], True)]
    flags = [(va, st, si) for va in (False, True) for st in (False, True) for si in (False, True)]
    sens = ['classpath', 'mit with classpath', 'classpath with mit', 'x with mit', 'gplv2 or foo', 'mit or gnu gpl v2', 'foo', 'mit with']
    for s_ in sens:
        for f1 in flags:
            for f2 in flags:
                if f1 != f2:
                    hist.append([('new', T0), ('parse', 0) + f1 + (s_,), ('parse', 0) + f2 + (s_,)])
    # another Licensing with other words built and used in between: the first one must not learn anything from it
    others = [[('zlib', ['z lib'], False), ('foo', [], False)], [('bar', ['foo bar'], True)], [('GPL 2.0', ['gnu gpl'], False), ('later', [], False)]]
    for Tb in others:
        for k, als, _ in Tb:
            for name in [k] + list(als):
                for f1 in flags[:4]:
                    hist.append([('new', T0), ('parse', 0, False, False, False, 'mit'), ('new', Tb), ('parse', 1, False, False, False, name),
                                 ('parse', 0) + f1 + ('mit or ' + name,), ('keys_text', 0, False, name + ' and mit', 'mit'),
                                 ('validate_text', 0, False, name, name)])
    related = [('foo', 'FOO'), ('mit  or foo', 'mit or foo'), ('gplv2', 'GPLV2'), ('MIT', 'mit'),
               # the same operands in another order, repeated, or spelled through an alias
               ('mit and gpl 2.0', 'gpl 2.0 and mit'), ('mit or gpl 2.0 or foo', 'foo or mit or gpl 2.0 or mit'),
               ('(mit or gpl 2.0) and foo', 'foo and (gnu gpl v2 or MIT)'), ('gpl 2.0 with classpath or mit', 'mit or gpl 2.0 with classpath'),
               ('foo and bar and foo', 'bar and foo'), ('gplv2 or mit', 'GPL 2.0 or mit'),
               # repeated licenses at a nested level only, at the top level only, at both
               ('mit or (gpl 2.0 and gpl 2.0 and foo)', 'mit or (gpl 2.0 and foo)'), ('foo and (mit or bar or mit)', '(mit or bar) and foo and foo'),
               ('mit or (foo and (bar or bar or mit))', 'mit or mit or (foo and (bar or mit) and foo)')]
    for a, b in related:
        for f1 in flags:
            hist.append([('new', T0), ('parse', 0) + f1 + (a,), ('parse', 0) + f1 + (b,)])
            hist.append([('new', T0), ('parse', 0) + f1 + (b,), ('parse', 0) + f1 + (a,)])
        # every query on texts: first on one text, then on the related one; and the same text under the other flag value
        for k in TEXT_OPS:
            for fl in (False, True):
                hist.append([('new', T0), (k, 0, fl, a, b), (k, 0, fl, b, a)])
                hist.append([('new', T0), (k, 0, fl, b, a), (k, 0, fl, a, b)])
                hist.append([('new', T0), (k, 0, fl, a, b), (k, 0, not fl, a, b)])
        # results of parse handed to dedup / simplify / listings one after the other
        hist.append([('new', T0), ('parse', 0, False, False, False, a), ('parse', 0, False, False, False, b), ('dedup', 0, 0), ('dedup', 0, 1),
                     ('keys', 0, 0), ('keys', 0, 1), ('simplify', 0), ('simplify', 1), ('equiv', 0, 0, 1), ('contains', 0, 0, 1)])
    results = [run_history(h, le) for h in hist]
    res = run_model([(17, r[2]) for r in results], chunk=100)
    rep.trail = []
    for h, (err, obs, mops, exprs), r in zip(hist, results, res):
        rep.trail.append({'raw': repr(list(h)), 'kind': 'history'})
        ninst = sum(1 for o in h if o[0] == 'new')
        rep.case(repr(h), nontrivial=ninst >= 2, sample={'history': [repr(o)[:70] for o in h[:6]], 'calls': len(h)})
        rep.count('histories')
        rep.count('calls', len(h))
        if err:
            small = gen.shrink_list(list(h), lambda c: run_history(c, le)[0] is not None)
            rep.violations.append({'key': 'history', 'kind': 'history', 'history': [list(map(repr, o)) for o in small],
                                   'raw': repr(small), 'what': err, 'text': repr(small)[:300], '_at': len(rep.trail) - 1})
            continue
        rep.compared += len(obs)
        if (r[0] != obs or r[1] != exprs):
            rep.suspects = getattr(rep, 'suspects', []) + [h]
        if (r[0] != obs or r[1] != exprs) and len(rep.broken) < 5:
            diff = [(i, a, b) for i, (a, b) in enumerate(zip(r[0], obs)) if a != b][:2]
            rep.broken.append('correspondence C19: history %r: first differences (index, model, implementation) %r'
                              % ([repr(o)[:50] for o in h], diff))


PRISTINE = r"""
import json, sys
sys.path.insert(0, %r)
from core import make_licensing, outcome_of, enc_expr
T, va, st, si, s = json.loads(sys.argv[1])
L = make_licensing([(k, a, e) for k, a, e in T])
got = outcome_of(lambda: L.parse(s, validate=va, strict=st, simple=si))
print(json.dumps(got if got[0] != 0 else [0, None if got[1] is None else enc_expr(got[1])]))
"""


def has_keyword_name(T):
    return any(' '.join(n.lower().split()) in ('and', 'or', 'with') for k, als, _ in T for n in [k] + list(als))


PRISTINE_NEW = r"""
import json, sys
sys.path.insert(0, %r)
from core import make_licensing
T = json.loads(sys.argv[1])
try:
    make_licensing([(k, a, e) for k, a, e in T])
    print('true')
except Exception:
    print('false')
"""


_pristine_new_cache = {}


def pristine_new(T):
    """Whether a fresh interpreter accepts the table (nothing was created there before)."""
    import json
    import os
    import subprocess
    import sys
    key = json.dumps(T)
    if key not in _pristine_new_cache:
        here = os.path.dirname(os.path.dirname(os.path.abspath(__file__)))
        p = subprocess.run([sys.executable, '-c', PRISTINE_NEW % here, key], stdout=subprocess.PIPE, stderr=subprocess.PIPE,
                           timeout=60, env=dict(os.environ))
        _pristine_new_cache[key] = json.loads(p.stdout.decode())
    return _pristine_new_cache[key]


def pristine_parse(T, va, st, si, s):
    """The answer of a freshly built Licensing in a fresh interpreter (nothing else was ever created there)."""
    import json
    import os
    import subprocess
    import sys
    here = os.path.dirname(os.path.dirname(os.path.abspath(__file__)))
    p = subprocess.run([sys.executable, '-c', PRISTINE % here, json.dumps([T, va, st, si, s])],
                       stdout=subprocess.PIPE, stderr=subprocess.PIPE, timeout=60, env=dict(os.environ))
    return json.loads(p.stdout.decode())


def search(rep, tier, seed):
    """The correspondence broke without an oracle failure: the fresh instances the oracle compares with
    live in the same interpreter as the history. Replay every parse of the suspect histories against a
    fresh Licensing in a fresh interpreter."""
    le = imp()
    for h in getattr(rep, 'suspects', [])[:6]:
        insts, tables = [], []
        for op in h:
            if op[0] == 'new':
                try:
                    insts.append(make_licensing(op[1]))
                    tables.append(op[1])
                except Exception:   # noqa
                    pass
            elif op[0] == 'parse' and op[1] < len(insts):
                _, i, va, st, si, s = op
                got = outcome_of(lambda: insts[i].parse(s, validate=va, strict=st, simple=si))
                cg = got if got[0] != 0 else [0, None if got[1] is None else enc_expr(got[1])]
                want = pristine_parse(tables[i], va, st, si, s)
                if json_norm(cg) != json_norm(want):
                    idx = h.index(op)
                    rep.violations.append({'key': 'history', 'kind': 'history', 'raw': repr(h[:idx + 1]),
                                           'history': [list(map(repr, o)) for o in h[:idx + 1]], 'text': repr(h[:idx + 1])[:300],
                                           'what': 'parse(%r) after this history returns %r; a fresh Licensing with the same table '
                                                   'in a fresh interpreter returns %r' % (s, cg, want), 'pristine': True,
                                           '_at': len(rep.trail or [])})
                    return


def json_norm(x):
    import json
    return json.loads(json.dumps(x))


def replay(payload):
    le = imp()
    ops = eval(payload['raw'])
    err, _, _, _ = run_history(ops, le)
    if err is None and payload.get('pristine'):
        insts, tables = [], []
        for op in ops:
            if op[0] == 'new':
                try:
                    insts.append(make_licensing(op[1]))
                    tables.append(op[1])
                except Exception:   # noqa
                    pass
            elif op[0] == 'parse' and op[1] < len(insts):
                _, i, va, st, si, s = op
                got = outcome_of(lambda: insts[i].parse(s, validate=va, strict=st, simple=si))
                cg = got if got[0] != 0 else [0, None if got[1] is None else enc_expr(got[1])]
                want = pristine_parse(tables[i], va, st, si, s)
                if json_norm(cg) != json_norm(want):
                    return False, 'parse(%r) returns %r, pristine %r' % (s, cg, want)
    return err is None, err or 'history independent'
