"""
C11 — Validation verdicts agree with each other and with parsing.

Correspondence: Licensing.validate (ExpressionInfo fields) and parse(validate=True) against the
model on valid, malformed, unknown-license and misplaced-exception strings, both strictness
settings. Spec oracle on the implementation: parse(validate=True) raises exactly when the
unknown-license listing is non-empty and its message names those keys in order; validate() has no
error exactly when parse(validate=True, strict=...) succeeds, then normalized = rendering of that
parse, otherwise normalized is None, there is an error message and, for unknown licenses, the
invalid symbols are the unknown keys in order.
"""
import random

from core import imp, run_model, enc_table, enc_str, make_licensing, dec_str, enc_opt
import gen
import parsing
from props import c03

RULE = ('all token strings of length <= 4 (quick) / <= 5 (thorough) over the 8-letter alphabet x strict in {True, False}; '
        'seeded stream over generated tables: grammar-derived valid texts, token soups, unknown runs, exceptions in wrong '
        'places; non-trivial = the string is non-blank and at least one of the three entry points reports an error; distinct '
        'by (table, text, strict)')
ASSUMPTIONS = ['blank strings are outside (validate() of a blank string sets normalized_expression to the text "None")']


def check_text(L, s, strict, le):
    """Returns (error or None, info triple, parse(validate=True) outcome)."""
    try:
        info = L.validate(s, strict=strict)
    except Exception as e:   # noqa
        return 'validate raised %s' % type(e).__name__, None, None
    # a key listing of the same text between the two entry points (it parses non-strictly) must not matter
    try:
        L.unknown_license_keys(s)
    except le.ExpressionError:
        pass
    pv = parsing.parse_outcome(L, s, validate=True, strict=strict)
    pn = parsing.parse_outcome(L, s, validate=False, strict=strict)
    triple = [enc_opt(info.normalized_expression, enc_str), len(info.errors), [enc_str(x) for x in info.invalid_symbols]]
    # parse(validate=True) raises "Unknown license key(s)" exactly when the unknown listing is non-empty
    if pn[0] == 0 and pn[1]:
        expr = L.parse(s, strict=strict)
        unk = L.unknown_license_keys(expr)
        if unk:
            try:
                L.parse(s, validate=True, strict=strict)
                return 'parse(validate=True) accepted unknown keys %r' % (unk,), triple, pv
            except le.ExpressionError as e:
                if isinstance(e, le.ExpressionParseError) or str(e) != 'Unknown license key(s): ' + ', '.join(unk):
                    return 'wrong error for unknown keys %r: %r' % (unk, str(e)), triple, pv
        elif pv[0] != 0:
            return 'parse(validate=True) failed without unknown keys: %r' % (pv,), triple, pv
    elif pn[0] != 0 and pv[0] == 0:
        return 'parse(validate=True) succeeded where parse failed', triple, pv
    # validate agrees with parse(validate=True)
    ok = (pv[0] == 0)
    if ok != (not info.errors):
        return 'validate errors %r but parse(validate=True) outcome %r' % (info.errors, pv), triple, pv
    if ok:
        want = str(L.parse(s, validate=True, strict=strict))
        if info.normalized_expression != want:
            return 'normalized %r, expected %r' % (info.normalized_expression, want), triple, pv
        if info.invalid_symbols:
            return 'invalid symbols %r on a valid expression' % (info.invalid_symbols,), triple, pv
    else:
        if info.normalized_expression is not None:
            return 'normalized expression present with errors', triple, pv
        if not info.errors or not all(isinstance(m, str) and m for m in info.errors):
            return 'no error message', triple, pv
        if pn[0] == 0 and pn[1]:
            unk = L.unknown_license_keys(L.parse(s, strict=strict))
            if unk and info.invalid_symbols != unk:
                return 'invalid symbols %r, unknown keys %r' % (info.invalid_symbols, unk), triple, pv
    return None, triple, pv


def run(rep, tier, seed):
    le = imp()
    rng = random.Random(seed)
    rep.broken = []
    rep.compared = 0
    maxlen = 5 if tier == 'thorough' else 4
    cases = []
    for t in gen.token_strings(maxlen):
        for st in (True, False):
            cases.append((gen.TOKEN_TABLE, gen.render_tokens(t), st))
    ntab = 200 if tier == 'thorough' else 30
    for _ in range(ntab):
        T = gen.gen_table(rng, maxn=3)
        for _ in range(20):
            r = rng.random()
            if r < 0.5:
                text, tree, ok = parsing.gen_expression(rng, T, depth=rng.randint(1, 3), unknown_ratio=rng.choice([0.0, 0.0, 0.4]))
            else:
                text = c03.soup(rng, T)
            if not text.strip() or ''.join(c.lower() for c in text) != text.lower():
                continue
            cases.append((T, text, rng.random() < 0.5))
    # names holding an operator word, taken apart by parentheses: the pieces are licenses of their own (one of them
    # unknown), although the text without the parentheses would be the single known name
    for T in ([('mit', [], False), ('mit or foo', [], False)],
              [('GPL-2.0', [], False), ('GPL-2.0-or-later', ['GPL-2.0 or later'], False), ('bsd', [], False)],
              [('later', [], False), ('gpl2+', ['gpl 2 or later'], False)],
              [('gpl', [], False), ('cp', [], True), ('gpl-cp', ['gpl with cp exception'], False)],
              [('x11', [], False), ('mit-x11', ['mit and x11'], False)]):
        for name in [n for k, als, _ in T for n in [k] + als]:
            ws = name.split()
            for i, w in enumerate(ws):
                if w.lower() in ('and', 'or', 'with') and 0 < i < len(ws) - 1:
                    l, r = ' '.join(ws[:i]), ' '.join(ws[i + 1:])
                    for text in ('(%s) %s %s' % (l, w, r), '%s %s (%s)' % (l, w, r), '(%s) %s (%s)' % (l, w, r),
                                 'bsd and ((%s) %s %s)' % (l, w, r), '%s %s %s' % (l, w, r), '( %s %s %s )' % (l, w, r)):
                        for st in (False, True):
                            cases.append((T, text, st))
                            rep.count('split_operator_names')
    # unknown keys spelled with the characters that error messages and listings use as separators (a colon or a dot followed
    # by a space inside a key of several words): every report names the whole keys, each once, in order
    for w in ('LicenseRef: custom', 'see: notice', 'a: b: c', 'v. 2', 'name: second unknown', 'x:y', 'foo:, bar'):
        for tmpl in ('%s', 'mit or %s', '%s and zz', 'first-unknown and mit or %s', '%s or other: terms', '(%s) and mit', 'mit with %s'):
            for st in (False, True):
                cases.append(([('mit', [], False), ('cp', [], True)], tmpl % w, st))
                cases.append(([], tmpl % w, st))
                rep.count('separator_characters_in_unknown_keys', 2)
    cache = {}
    reqs = []
    for T, s, st in cases:
        key = repr(T)
        if key not in cache:
            cache[key] = (make_licensing(T), enc_table(T))
        reqs.append((10, [cache[key][1], int(st), enc_str(s)]))
        reqs.append((4, [cache[key][1], 1, int(st), 0, enc_str(s)]))
    res = run_model(reqs)
    for i, (T, s, st) in enumerate(cases):
        L = cache[repr(T)][0]
        err, triple, pv = check_text(L, s, st, le)
        rep.case((repr(T), s, st), nontrivial=bool(triple and triple[1]), sample={'table': T, 'text': s, 'strict': st,
                                                                                 'errors': triple[1] if triple else None})
        rep.count('with_errors' if (triple and triple[1]) else 'clean')
        if err:
            rep.violations.append({'key': 'verdict', 'kind': 'text', 'table': T, 'text': s, 'strict': st, 'what': err})
            continue
        rep.compared += 2
        mi = res[2 * i]
        mod = [mi[0], len(mi[1]), mi[2]]
        mp = res[2 * i + 1]
        gp = pv
        if gp[0] == 2 and gp[1][0] == 2:
            gp = [2, [2, [enc_str(k) for k in L.unknown_license_keys(L.parse(s, strict=st))]]]
        if (mod != triple or mp != gp) and len(rep.broken) < 5:
            rep.broken.append('correspondence C11: table %r text %r strict=%r model (%r, %r) implementation (%r, %r)'
                              % (T, s, st, mod, mp, triple, gp))


def replay(payload):
    le = imp()
    T = [tuple(x) for x in payload['table']]
    T = [(k, a, e) for k, a, e in T]
    err, triple, pv = check_text(make_licensing(T), payload['text'], payload['strict'], le)
    return err is None, err or 'verdicts agree'
