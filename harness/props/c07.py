"""
C07 — Simplification yields one canonical form per rewrite class.

Correspondence: simplify() against the model (structure), on trees and on their rewritten variants.
Spec oracle on the implementation: idempotence (also after rendering and re-parsing), invariance of
the simplified text under commutativity / associativity / repetition / single-license absorption,
canonical shape of the result (no operand of the node's own kind, no two equal operands, operands
sorted).
"""
import random

from core import imp, run_model, enc_expr, build_expr, REPRESENTATIONS
import algebra
import gen

RULE = ('seeded random trees (depth <= 4, arity <= 4, every third from the collision stream where different atoms render '
        'identically, every fourth over keys that are prefixes of one another so that plain and WITH symbols interleave in '
        'the order) each followed by a sequence of 1-4 rewrite steps at random nodes; exhaustive depth-2 trees over 3 '
        'atoms; non-trivial = not a single license; distinct by (tree, rewritten tree)')
ASSUMPTIONS = ['idempotence and rewrite invariance are checked on the implementation by the oracle and on the model by the '
               'correspondence; the Coq theorems cover the canonical shape (C07_canonical) and the strictness of the order']


def shape_error(e, le):
    """Canonical shape of a simplified implementation expression."""
    if isinstance(e, le.BaseSymbol):
        return None
    args = list(e.args)
    if len(args) < 2:
        return 'node with fewer than two operands'
    for a in args:
        if type(a) is type(e):
            return 'operand of the node\'s own kind'
    for i, a in enumerate(args):
        for b in args[i + 1:]:
            if a == b:
                return 'two equal operands'
    for a, b in zip(args, args[1:]):
        if b < a:
            return 'operands out of order'
    for i, a in enumerate(args):
        for b in args[i + 1:]:
            if not (a < b) and not (b < a):
                return 'operands not totally ordered'
    for a in args:
        err = shape_error(a, le)
        if err:
            return err
    return None


def presorted(e, le):
    """The same expression with the operands of every node put in ascending order (a pure reordering)."""
    if isinstance(e, le.BaseSymbol):
        return e
    return type(e)(*sorted(presorted(a, le) for a in e.args))


def check_one(tree, variant, le, L):
    e = build_expr(tree)
    s = e.simplify()
    text = str(s)
    err = shape_error(s, le)
    if err:
        return err
    # an input whose operands already stand in the order of the result is one more reordering of the same expression
    pt = str(presorted(build_expr(tree), le).simplify())
    if pt != text:
        return 'the input with its operands put in ascending order simplifies to another text: %r vs %r' % (pt, text)
    # the same tree over wrapped user objects, or over a mixture of both kinds of symbol, and its pre-sorted form
    for like in REPRESENTATIONS:
        vt = str(build_expr(tree, like=like).simplify())
        if vt != text:
            return 'the input over wrapped user objects (representation %r) simplifies to another text: %r vs %r' % (like, vt, text)
        vt = str(presorted(build_expr(tree, like=like), le).simplify())
        if vt != text:
            return 'the pre-sorted input over wrapped user objects (representation %r) simplifies to another text: %r vs %r' % (like, vt, text)
    # idempotence: on the object, on a structurally rebuilt copy, and through the text
    if str(s.simplify()) != text:
        return 'simplify() is not idempotent on its result'
    if str(build_expr(enc_expr(s)).simplify()) != text:
        return 'simplify() of a rebuilt copy of the result differs'
    if variant is not None:
        vt = str(build_expr(variant).simplify())
        if vt != text:
            return 'rewritten input simplifies to another text: %r vs %r' % (vt, text)
    if gen.tree_size(tree) <= 7:
        return order_error(tree, cap=30)
    return None


def run(rep, tier, seed):
    le = imp()
    L = le.Licensing()
    rng = random.Random(seed)
    n = 20000 if tier == 'thorough' else 1500
    trees = list(algebra.enum_trees(3, 2, 2)) if tier == 'quick' else list(algebra.enum_trees(3, 3, 1)) + list(algebra.enum_trees(3, 2, 2))
    nex = len(trees)
    for i in range(n):
        if i % 8 == 5:
            # one flat node whose operands are plain and WITH symbols over prefix-related keys
            from core import enc_str
            pool = [[0, [enc_str(k), 0]] for k in gen.ORDER_KEYS] + \
                   [[1, [enc_str(k), 0], [enc_str(x), 0]] for k in gen.ORDER_KEYS[:8] for x in ('x', 'y')]
            ops = rng.sample(pool, rng.randint(3, 6))
            trees.append([rng.choice([1, 2]), [[0, a] for a in ops]])
        elif i % 8 == 6:
            trees.append(gen.gen_tree(rng, depth=2, maxar=3, atoms=gen.with_part_atoms()))
        elif i % 8 == 7:
            # keys that differ only in letter case are different licenses
            from core import enc_str
            cs = [[0, [enc_str(k), 0]] for k in ('mit', 'MIT', 'Mit', 'x')] + [[1, [enc_str('gpl'), 0], [enc_str(k), 0]] for k in ('foo', 'Foo')]
            trees.append(gen.gen_tree(rng, depth=rng.randint(1, 2), maxar=3, atoms=cs))
        elif i % 4 == 1:
            trees.append(gen.gen_tree(rng, depth=rng.randint(1, 2), maxar=5, keys=gen.ORDER_KEYS))
        else:
            trees.append(gen.gen_tree(rng, depth=rng.randint(1, 4), maxar=4, collide=(i % 3 == 0)))
    cases = []
    for t in trees:
        v = None
        if t[0] != 0:
            v = t
            steps = []
            for _ in range(rng.randint(1, 4)):
                r = algebra.rewrite_once(rng, v, lambda: [0, gen.gen_atom(rng, collide=True)])
                if r:
                    steps.append(r[0])
                    v = r[1]
            if v is t:
                v = None
            else:
                for s in steps:
                    rep.count('rewrite_' + s)
        cases.append((t, v))
    # sibling groups that agree up to a nested group, one nested group being the beginning of the other (the order of two groups
    # is decided by their operands from left to right, the shorter first): both orders of the siblings
    from core import enc_str
    def L(k):
        return [0, [0, [enc_str(k), 0]]]
    W = [0, [1, [enc_str('gpl'), 0], [enc_str('cp'), 1]]]
    for op in (1, 2):
        dual = 3 - op
        for x in (L('x'), W):
            for short, long_ in (([L('a'), L('b')], [L('a'), L('b'), L('c')]), ([L('a')] + [L('b')], [L('a'), L('b'), W])):
                g1, g2 = [dual, [x, [op, short]]], [dual, [x, [op, long_]]]
                for extra in ([], [L('zlib')]):
                    cases.append(([op, [g1, g2] + extra], [op, extra + [g2, g1]]))
                    cases.append(([op, [g2, g1] + extra], [op, [g1] + extra + [g2]]))
    reqs = []
    for t, v in cases:
        reqs.append((5, t))
        reqs.append((5, v if v is not None else t))
    res = run_model(reqs)
    rep.compared = 0
    rep.broken = []
    for i, (t, v) in enumerate(cases):
        rm, rv = res[2 * i], res[2 * i + 1]
        rep.case((t, v), nontrivial=(t[0] != 0),
                 sample={'tree': str(build_expr(t)), 'rewritten': str(build_expr(v)) if v else None,
                         'simplified': str(build_expr(t).simplify())})
        err = check_one(t, v, le, L)
        if err:
            rep.violations.append({'key': 'canonical', 'kind': 'tree', 'tree': t, 'variant': v,
                                   'text': str(build_expr(t)), 'what': err})
            continue
        si = enc_expr(build_expr(t).simplify())
        rep.compared += 1
        if si != rm:
            rep.suspects = getattr(rep, 'suspects', []) + [t]
        if si != rm and len(rep.broken) < 5:
            rep.broken.append('correspondence C07/simplify: tree %s model %r implementation %r' % (build_expr(t), rm, si))
        if v is not None and rv != rm and len(rep.broken) < 5:
            rep.broken.append('correspondence C07/rewrite: the model simplifies %s and its rewriting %s differently'
                              % (build_expr(t), build_expr(v)))


def orders(tree, cap=400):
    """The tree with the operands of its nodes in other orders (every permutation of small nodes), at most cap of them."""
    import itertools
    if tree[0] == 0:
        return [tree]
    kids = [orders(k, 6) for k in tree[1]]
    out = []
    for perm in itertools.permutations(range(len(kids))) if len(kids) <= 4 else [tuple(range(len(kids))), tuple(reversed(range(len(kids))))]:
        for combo in itertools.islice(itertools.product(*[kids[i] for i in perm]), 40):
            out.append([tree[0], list(combo)])
            if len(out) >= cap:
                return out
    return out


def order_error(tree, cap=400):
    """One expression in all the orders of its operands: one simplified text."""
    texts = {}
    for v in orders(tree, cap):
        texts.setdefault(str(build_expr(v).simplify()), v)
        if len(texts) > 1:
            (t1, v1), (t2, v2) = list(texts.items())[:2]
            return 'the same operands in two orders simplify to two texts: %s -> %r, %s -> %r' % (build_expr(v1), t1, build_expr(v2), t2)
    return None


def search(rep, tier, seed):
    """The correspondence broke and no generated tree failed the oracle: shrink a tree on which the model and the
    implementation differ and ask the oracle about every operand order of the small tree."""
    le = imp()
    L = le.Licensing()

    def differs(t):
        try:
            return run_model([(5, t)])[0] != enc_expr(build_expr(t).simplify())
        except Exception:   # noqa
            return False
    for t in getattr(rep, 'suspects', [])[:4]:
        small = gen.shrink_tree(t, differs)
        for cand in (small, t):
            err = check_one(cand, None, le, L) or order_error(cand)
            if err:
                rep.violations.append({'key': 'canonical', 'kind': 'tree', 'tree': cand, 'variant': None, 'orders': True,
                                       'text': str(build_expr(cand)), 'what': err})
                return


def replay(payload):
    le = imp()
    if payload.get('orders'):
        err = check_one(payload['tree'], None, le, le.Licensing()) or order_error(payload['tree'])
        return (err is None, err or 'canonical, idempotent, order-invariant')
    err = check_one(payload['tree'], payload.get('variant'), le, le.Licensing())
    return (err is None, err or 'canonical, idempotent, rewrite-invariant')
