"""
C05 — Rendered expressions re-parse to themselves; rendering is a fixed point.

Correspondence: str / render / render_as_readable of the implementation against the model's
render and render_readable on generated trees.
Spec oracle on the implementation: for tables free of operator words, every expression obtained
from parse, simplify, dedup or combine_expressions renders to a text that parses (same Licensing)
to an expression of identical structure whose rendering is the same text; the readable rendering
re-parses to the same expression; rendering with a template equals an independent rendering with
the template applied to each license.
"""
import random

from core import imp, run_model, enc_table, enc_str, make_licensing, dec_str, enc_expr, build_expr
import gen
import parsing

RULE = ('trees built over seeded operator-word-free tables (multi-word keys, aliases, exception flags) and unknown multi-word '
        'licenses, passed through the four producers parse / simplify / dedup / combine_expressions; 12 templates; '
        'non-trivial = the expression has an operator; distinct by (table, rendering, producer)')
ASSUMPTIONS = ['the table names contain no operator words (as in the SPDX and ScanCode tables); unknown keys contain no known name']

TEMPLATES = ['{symbol.key}', '<a href="/l/{symbol.key}">{symbol.key}</a>', '[{symbol.key}]', '{symbol.key}{symbol.key}',
             'x', '', '{symbol.key!r}', 'L:{symbol.key}:{symbol.is_exception}', '({symbol.key})', '{symbol.key} ',
             '{symbol.key:>12}', 'AND {symbol.key} OR']
KW = ('and', 'or', 'with')


def kwfree_table(rng):
    for _ in range(100):
        T = gen.gen_table(rng, maxn=4, parens=False)
        ok = True
        for n, _ in gen.names_of(T):
            if any(w in KW for w in gen.lw(n)):
                ok = False
        if ok:
            return T
    return [('mit', [], False), ('gpl 2.0', ['gnu gpl v2'], False)]


def indep_render(e, f, wrap, le, top=True):
    if isinstance(e, le.LicenseWithExceptionSymbol):
        r = '%s WITH %s' % (f(e.license_symbol), f(e.exception_symbol))
        return '(%s)' % r if (wrap and not top) else r
    if isinstance(e, le.BaseSymbol):
        return f(e)
    parts = []
    for a in e.args:
        r = indep_render(a, f, wrap, le, top=False)
        parts.append(r if isinstance(a, le.BaseSymbol) else '(%s)' % r)
    return (' AND ' if isinstance(e, le.AND) else ' OR ').join(parts)


def check_expr(L, e, le):
    text = str(e)
    enc = enc_expr(e)
    try:
        p = L.parse(text)
    except le.ExpressionError as ex:
        return 'rendering %r does not re-parse: %s' % (text, ex)
    if enc_expr(p) != enc:
        return 'rendering %r re-parses to another expression: %s' % (text, p)
    if str(p) != text or p.render('{symbol.key}') != text:
        return 'rendering is not a fixed point: %r -> %r' % (text, str(p))
    rd = e.render_as_readable()
    try:
        p2 = L.parse(rd)
    except le.ExpressionError as ex:
        return 'readable rendering %r does not re-parse: %s' % (rd, ex)
    if enc_expr(p2) != enc:
        return 'readable rendering %r re-parses to another expression' % rd
    if rd != indep_render(e, lambda s: s.key, True, le):
        return 'readable rendering %r differs from the reference' % rd
    for t in TEMPLATES:
        want = indep_render(e, lambda s: t.format(symbol=s), False, le)
        got = e.render(t)
        if got != want:
            return 'template %r: %r, expected %r' % (t, got, want)
    # the same tree over wrapped user objects renders the same way
    from core import build_expr, REPRESENTATIONS
    for like in REPRESENTATIONS:
        v = build_expr(enc, like=like)
        if str(v) != text or v.render_as_readable() != rd:
            return 'the same expression over wrapped user objects renders as %r / %r' % (str(v), v.render_as_readable())
    return None


def produce(L, recipe, le):
    """The expression object a producer makes of the source tree (objects keep what their producer left on them)."""
    from core import build_expr
    e = L.parse(recipe['text']) if recipe.get('text') is not None else build_expr(recipe['source'])
    name = recipe['producer']
    if name == 'parse':
        return e
    if name == 'simplify':
        return e.simplify()
    if name == 'dedup':
        return L.dedup(e)
    if name == 'simplify-nested':
        s_ = e.simplify()
        return le.AND(s_, le.LicenseSymbol('zz-last')) if isinstance(s_, le.OR) else le.OR(s_, le.LicenseSymbol('zz-last'))
    other = build_expr(recipe['other'])
    if name == 'combine':
        return le.combine_expressions([e, other, e], relation=recipe['relation'], unique=recipe['unique'], licensing=L)
    return le.combine_expressions([e.simplify(), other.simplify()], relation=recipe['relation'], unique=recipe['unique'], licensing=L)


def run(rep, tier, seed):
    le = imp()
    rng = random.Random(seed)
    rep.broken = []
    rep.compared = 0
    rep.trail = []
    ntab = 250 if tier == 'thorough' else 40
    model_reqs, model_meta = [], []
    for _ in range(ntab):
        T = kwfree_table(rng)
        L = make_licensing(T)
        for _ in range(12):
            text, tree, ok = parsing.gen_expression(rng, T, depth=rng.randint(1, 3), unknown_ratio=0.3)
            if not ok or ''.join(c.lower() for c in text) != text.lower():
                rep.count('skipped')
                continue
            try:
                e = L.parse(text)
            except le.ExpressionError:
                rep.count('skipped')
                continue
            if any(any(w in KW for w in gen.lw(k)) for k in L.license_keys(e)):
                rep.count('skipped_kw_in_unknown')
                continue
            src = enc_expr(e)
            recipes = [{'producer': 'parse', 'source': src, 'text': text}, {'producer': 'simplify', 'source': src, 'text': text},
                       {'producer': 'dedup', 'source': src, 'text': text}, {'producer': 'dedup', 'source': src},
                       # a simplified operand inside a hand-made or combined expression keeps what simplify() left on it
                       {'producer': 'simplify-nested', 'source': src, 'text': text}]
            try:
                other = L.parse(parsing.gen_expression(rng, T, depth=1)[0])
                if other is not None and not any(any(w in KW for w in gen.lw(k)) for k in L.license_keys(other)):
                    recipes.append({'producer': 'combine', 'source': src, 'text': text, 'other': enc_expr(other), 'relation': rng.choice(['AND', 'OR']),
                                    'unique': rng.random() < 0.5})
                    recipes.append({'producer': 'combine-simplified', 'source': src, 'other': enc_expr(other), 'relation': rng.choice(['AND', 'OR']),
                                    'unique': False})
            except le.ExpressionError:
                pass
            for recipe in recipes:
                name = recipe['producer']
                x = produce(L, recipe, le)
                err = check_expr(L, x, le)
                rep.trail.append({'table': T, 'tree': enc_expr(x)})
                rep.case((repr(T), str(x), name), nontrivial=not isinstance(x, le.BaseSymbol),
                         sample={'table': T, 'producer': name, 'rendering': str(x)})
                rep.count('producer_' + name)
                if err:
                    rep.violations.append({'key': 'roundtrip', 'kind': 'expr', 'table': T, 'tree': enc_expr(x), '_at': len(rep.trail) - 1,
                                           'recipe': recipe, 'text': str(x), 'what': '%s result: %s' % (name, err)})
                    continue
                model_reqs.append((14, enc_expr(x)))
                model_meta.append(x)
    # keys with letters whose case folding is not their lower-casing, reached through ASCII aliases: the rendering
    # writes the key, which must be recognised again as that very license
    FT = [('Weiß-1.0', ['weiss lic'], False), ('weiss-1.0', [], False), ('Maß-exception', ['mass-exc'], True), ('mit', [], False),
          ('Straße-2.0', ['str2'], False), ('ﬁle-lic', ['file lic'], False)]
    Lf = make_licensing(FT)
    for text in ('weiss lic and mit', 'mit with mass-exc', 'str2 or (weiss lic and weiss-1.0)', 'file lic or mit', 'Weiß-1.0 or weiss-1.0',
                 'STR2 with MASS-EXC or some unknown thing', 'straße-2.0 and MAß-EXCEPTION'):
        try:
            e = Lf.parse(text)
        except le.ExpressionError:
            continue
        for name, x in (('parse', e), ('simplify', e.simplify()), ('dedup', Lf.dedup(e))):
            err = check_expr(Lf, x, le)
            rep.trail.append({'table': FT, 'tree': enc_expr(x)})
            rep.case((repr(FT), str(x), name), nontrivial=True, sample=None)
            rep.count('case_fold_keys')
            if err:
                rep.violations.append({'key': 'roundtrip', 'kind': 'expr', 'table': FT, 'tree': enc_expr(x), '_at': len(rep.trail) - 1,
                                       'text': str(x), 'what': '%s result: %s' % (name, err)})
    # unknown licenses made of the words of a known multi-word name with foreign words in between (no stored name occurs among
    # their words): as operands of hand-built, deduplicated and combined expressions they render and parse back
    IT = [('GPL 2.0', ['GNU Lesser 2.1 plus'], False), ('mit', [], False), ('cp', ['classpath exception 2.0'], True)]
    Li = make_licensing(IT)
    def P(k, e=0):
        return [0, [0, [enc_str(k), e]]]
    # ... and names that end in a character a reader might take for punctuation (a dot is a key character), standing last
    for unk in ('GPL foo 2.0', 'GNU Lesser 2.1 only plus', 'GNU foo Lesser 2.1 plus', 'GPL zz yy 2.0', 'classpath my exception 2.0', 'GNU Lesser',
                'acme corp.', 'zeta inc.', 'v.', 'x+', 'y:', 'z-'):
        for src in (P(unk), [1, [P(unk), P('mit')]], [2, [[0, [1, [enc_str(unk), 0], [enc_str('cp'), 1]]], P('mit')]],
                    [1, [P('mit'), [2, [P(unk), P('GPL 2.0'), P(unk)]]]], [2, [P('mit'), P(unk)]],
                    [1, [P('mit'), [0, [1, [enc_str('GPL 2.0'), 0], [enc_str(unk), 0]]]]]):
            for producer in ('parse', 'dedup', 'simplify'):
                recipe = {'producer': producer, 'source': src}
                x = produce(Li, recipe, le)
                err = check_expr(Li, x, le)
                rep.trail.append({'table': IT, 'tree': enc_expr(x)})
                rep.case((repr(IT), str(x), producer), nontrivial=True, sample=None)
                rep.count('interrupted_name_unknowns')
                if err:
                    rep.violations.append({'key': 'roundtrip', 'kind': 'expr', 'table': IT, 'tree': enc_expr(x), '_at': len(rep.trail) - 1,
                                           'recipe': recipe, 'text': str(x), 'what': '%s result: %s' % (producer, err)})
    # sibling groups that are equal up to the order or repetition of their operands (boolean.py's == of AND / OR is set-based):
    # each is written with its own operands in its own order
    A_, B_, C_ = P('mit'), P('GPL 2.0'), P('zz yy')
    for src in ([2, [[1, [A_, B_]], [1, [B_, A_]]]], [1, [[2, [A_, B_, A_]], [2, [B_, A_]]]], [2, [[1, [A_, B_, C_]], C_, [1, [C_, B_, A_]]]],
                [1, [A_, [2, [[1, [B_, C_]], [1, [C_, B_]]]]]]):
        for producer in ('parse', 'dedup'):
            recipe = {'producer': producer, 'source': src}
            x = produce(Li, recipe, le)
            err = check_expr(Li, x, le)
            rep.trail.append({'table': IT, 'tree': enc_expr(x)})
            rep.case((repr(IT), str(x), producer, 'siblings'), nontrivial=True, sample=None)
            rep.count('reordered_sibling_groups')
            if err:
                rep.violations.append({'key': 'roundtrip', 'kind': 'expr', 'table': IT, 'tree': enc_expr(x), '_at': len(rep.trail) - 1,
                                       'recipe': recipe, 'text': str(x), 'what': '%s result: %s' % (producer, err)})
    res = run_model(model_reqs)
    for x, r in zip(model_meta, res):
        got = [enc_str(str(x)), enc_str(x.render_as_readable())]
        rep.compared += 1
        if got != r and len(rep.broken) < 5:
            rep.broken.append('correspondence C05/render: %s model (%r, %r) implementation (%r, %r)'
                              % (x, dec_str(r[0]), dec_str(r[1]), str(x), x.render_as_readable()))


def replay(payload):
    le = imp()
    T = [(k, a, e) for k, a, e in payload['table']]
    L = make_licensing(T)
    x = produce(L, payload['recipe'], le) if payload.get('recipe') else build_expr(payload['tree'])
    err = check_expr(L, x, le)
    return err is None, err or 'round trip and templates hold'
