"""
C16 — The name matcher finds every occurrence of every stored name.

Correspondence: sequences of Trie operations (add with re-insertions and new values, get, exists,
is_prefix, items before and after make_automaton, add after finalisation, iter over texts) against
the model's trie. Spec oracle on the implementation: a brute-force search of every stored name's
word sequence in the word sequence of the text gives the exact set of (name, place) pairs that
iter() must report; look-ups ignore case and spacing; a later value replaces an earlier one; items()
are exactly the stored names; additions after finalisation are refused.
"""
import itertools
import random

from core import imp, run_model, enc_str, dec_str
import gen

RULE = ('exhaustive: all sets of <= 2 (quick) / <= 3 (thorough) names of <= 3 words over {a, b} (in every insertion order for '
        'pairs) x all texts of <= 5 (quick) / <= 6 (thorough) words over {a, b, c}; seeded: random name sets over a colliding '
        'word pool (parentheses as words, operator words, U+0130) with re-insertions, case / white-space variants in '
        'look-ups and texts; non-trivial = at least one name occurs in the text; distinct by (names in order, text)')
ASSUMPTIONS = ['names without any word and the non-default include_space=True scan are outside the property',
               'stored values are truthy (Trie.add stores "value or tokens_string")']


def brute(names, text):
    """
    names: list of (name, value) in insertion order. Returns the sorted list of
    (start, end, slice, value) that iter(text) must report.
    """
    stored = {}
    for n, v in names:
        w = tuple(gen.lw(n))
        if w and isinstance(n, str) and n:
            stored[w] = (n, v)
    # word pieces of the text with offsets
    pieces = []
    cur, st = '', 0
    for i, c in enumerate(text):
        if c.isspace() or c in '()':
            if cur:
                pieces.append((st, i - 1, cur))
                cur = ''
            if c in '()':
                pieces.append((i, i, c))
        else:
            if not cur:
                st = i
            cur += c
    if cur:
        pieces.append((st, len(text) - 1, cur))
    lw = [p[2].lower() for p in pieces]
    out = []
    for w, (n, v) in stored.items():
        k = len(w)
        for s in range(0, len(lw) - k + 1):
            if tuple(lw[s:s + k]) == w:
                a, b = pieces[s][0], pieces[s + k - 1][1]
                out.append((a, b, text[a:b + 1], v))
    return sorted(out)


def impl_iter(trie, text):
    return sorted((t.start, t.end, t.string, t.value) for t in trie.iter(text))


def run_case(names, texts, lookups, le):
    """
    Runs one trie through the implementation. Returns (error or None, observations) where
    observations mirror the model's op results.
    """
    from license_expression._pyahocorasick import Trie
    t = Trie()
    obs = []
    last = {}
    for n, v in names:
        t.add(n, v)
        obs.append([0])
        w = tuple(gen.lw(n))
        if w:
            last[w] = (n, v)
    err = None

    def look(phase):
        nonlocal err
        for q in (lookups if phase == 'before' else lookups + POST_LOOKUPS):
            w = tuple(gen.lw(q))
            try:
                g = t.get(q)
                obs.append([[enc_str(g[0]), g[1]]])
            except KeyError:
                g = None
                obs.append([])
            ex = t.exists(q)
            obs.append(1 if ex else 0)
            pr = t.is_prefix(q)
            obs.append(1 if pr else 0)
            want = last.get(w) if q else None
            if g != want and not err:
                err = '%s: get(%r) = %r, stored %r' % (phase, q, g, want)
            if ex != (want is not None) and not err:
                err = '%s: exists(%r) = %r' % (phase, q, ex)
            want_pr = bool(q) and any(k[:len(w)] == w for k in last) if w else bool(q)
            if pr != want_pr and not err:
                err = '%s: is_prefix(%r) = %r, expected %r' % (phase, q, pr, want_pr)
        items = sorted(t.items())
        obs.append(sorted([[enc_str(k), v] for k, v in items]))
        if items != sorted(last.values()) and not err:
            err = '%s: items() = %r, stored %r' % (phase, items, sorted(last.values()))
    look('before')
    t.make_automaton()
    obs.append([])
    look('after')
    try:
        t.add('zzz new', 99)
        if not err:
            err = 'add after make_automaton was not refused'
        obs.append([0])
    except Exception:
        obs.append([1])
    if sorted(t.items()) != sorted(last.values()) and not err:
        err = 'a refused add changed the trie'
    for text in texts:
        try:
            got = impl_iter(t, text)
        except Exception as ex:   # noqa
            if not err:
                err = 'iter(%r) raised %s: %s' % (text, type(ex).__name__, ex)
            obs.append([])
            continue
        obs.append([[a, b, enc_str(s), [v]] for a, b, s, v in got])
        want = brute(names, text)
        if got != want and not err:
            err = 'iter(%r) = %r, occurrences %r' % (text, got, want)
    # scans of one finalised matcher advanced in turns (iter() is a generator): each reports what it reports alone
    if len(texts) >= 2 and not err:
        gens = [t.iter(x) for x in texts[:3]]
        outs = [[] for _ in gens]
        live = list(range(len(gens)))
        while live:
            for i in list(live):
                try:
                    tok = next(gens[i])
                    outs[i].append((tok.start, tok.end, tok.string, tok.value))
                except StopIteration:
                    live.remove(i)
                except Exception as ex:   # noqa
                    live.remove(i)
                    err = err or 'interleaved scans: iter(%r) raised %s' % (texts[i], type(ex).__name__)
        for x, o in zip(texts[:3], outs):
            if sorted(o) != brute(names, x) and not err:
                err = 'interleaved scans: iter(%r) = %r, alone %r' % (x, sorted(o), brute(names, x))
    return err, obs


# asked only once the matcher is finalised: names nobody stored, made of words that no stored name may have (a look-up is a
# question: it leaves nothing behind for the scans that follow)
POST_LOOKUPS = ['c', 'c a', 'zz', 'q zz', 'later gpl']


def model_ops(names, texts, lookups):
    ops = [[0, enc_str(n), v] for n, v in names]
    def look(qs):
        out = []
        for q in qs:
            out += [[1, enc_str(q)], [2, enc_str(q)], [3, enc_str(q)]]
        out.append([4])
        return out
    ops += look(lookups)
    ops.append([5])
    ops += look(lookups + POST_LOOKUPS)
    ops.append([0, enc_str('zzz new'), 99])
    for t in texts:
        ops.append([6, enc_str(t)])
    return ops


def canon_model(res):
    out = []
    for r in res:
        if isinstance(r, list) and r and isinstance(r[0], list) and len(r[0]) == 2 and isinstance(r[0][0], list) and not (len(r[0]) == 4):
            # items or get results: sort items lists
            if all(isinstance(x, list) and len(x) == 2 and isinstance(x[1], int) for x in r):
                out.append(sorted(r))
                continue
        if isinstance(r, list) and r and isinstance(r[0], list) and len(r[0]) == 4:
            out.append(sorted(r))
            continue
        out.append(r)
    return out


def canon_impl(obs):
    out = []
    for r in obs:
        if isinstance(r, list) and r and isinstance(r[0], list) and len(r[0]) == 4:
            out.append(sorted(r))
        else:
            out.append(r)
    return out


def exhaustive(tier):
    words = ['a', 'b']
    names = [' '.join(t) for k in (1, 2, 3) for t in itertools.product(words, repeat=k)]
    maxset = 3 if tier == 'thorough' else 2
    maxtext = 6 if tier == 'thorough' else 5
    texts = [' '.join(t) for k in range(1, maxtext + 1) for t in itertools.product(['a', 'b', 'c'], repeat=k)]
    sets = []
    for k in range(1, maxset + 1):
        for combo in itertools.combinations(names, k):
            sets.append(list(combo))
            if k == 2:
                sets.append(list(reversed(combo)))
    return sets, texts


def run(rep, tier, seed):
    le = imp()
    rng = random.Random(seed)
    rep.broken = []
    rep.compared = 0
    sets, texts = exhaustive(tier)
    # exhaustive: one model request per name set with all texts
    reqs, metas = [], []
    for s in sets:
        names = [(n, i + 1) for i, n in enumerate(s)]
        # look-ups of stored names, of prefixes, and of a name nobody stored made of a word no stored name has (the texts hold it)
        lookups = [s[0], s[0].upper().replace(' ', '  '), 'a', 'b a b', '']
        reqs.append((12, model_ops(names, texts, lookups)))
        metas.append((names, texts, lookups))
    res = run_model(reqs, chunk=50)
    for (names, txts, lookups), r in zip(metas, res):
        err, obs = run_case(names, txts, lookups, le)
        nocc = sum(1 for t in txts if brute(names, t))
        for t in txts:
            rep.evaluations += 1
        rep.nontrivial.add(('set', tuple(names)))
        rep.count('exhaustive_sets')
        rep.count('exhaustive_texts_with_occurrence', nocc)
        if len(rep.samples) < 3:
            rep.samples.append({'names': names, 'texts': len(txts), 'with_occurrence': nocc})
        if err:
            bad = [t for t in txts if run_case(names, [t], lookups, le)[0]][:1]
            rep.violations.append({'key': 'matcher', 'kind': 'trie', 'names': names, 'texts': bad or txts, 'lookups': lookups,
                                   'what': err, 'text': err})
            continue
        rep.compared += len(obs)
        if canon_model(r) != canon_impl(obs) and len(rep.broken) < 5:
            diff = [(i, a, b) for i, (a, b) in enumerate(zip(canon_model(r), canon_impl(obs))) if a != b][:2]
            rep.broken.append('correspondence C16: names %r: first differences (index, model, implementation) %r' % (names, diff))
    rep.evaluations_exhaustive = rep.evaluations
    # seeded: colliding word pool, parentheses, variants
    n = 3000 if tier == 'thorough' else 300
    reqs, metas = [], []
    pool = ['gpl', '2.0', 'gnu', 'or', 'later', 'with', '(', ')', 'İx', 'v2', 'and', 'x']
    for _ in range(n):
        k = rng.randint(1, 5)
        names = []
        for i in range(k):
            ws = [rng.choice(pool) for _ in range(rng.randint(1, 4))]
            name = ' '.join(ws)
            if rng.random() < 0.3:
                name = gen.vary_name(rng, name)
            names.append((name, rng.randint(1, 9)))
        if rng.random() < 0.5 and names:
            nm, _ = rng.choice(names)
            names.append((gen.vary_name(rng, nm), rng.randint(10, 19)))
        names += [('', 5), ('  ', 6)][:rng.randint(0, 2)]
        txts = []
        for _ in range(4):
            ws = []
            for _ in range(rng.randint(1, 9)):
                if rng.random() < 0.6 and names:
                    ws.extend(gen.words_of(rng.choice(names)[0]))
                else:
                    ws.append(rng.choice(pool + ['zz', 'q']))
            t = ''
            for j, w in enumerate(ws):
                if j:
                    t += gen.gen_ws(rng, 1, 2) if (w not in '()' and ws[j - 1] not in '()') else gen.gen_ws(rng, 0, 1)
                t += gen.vary_case(rng, w)
            txts.append(t)
        lookups = [gen.vary_name(rng, rng.choice(names)[0]) if names else 'x', rng.choice(pool), 'gpl 2.0']
        allt = ''.join(n_ for n_, _ in names) + ''.join(txts) + ''.join(lookups)
        if ''.join(c.lower() for c in allt) != allt.lower():
            continue
        reqs.append((12, model_ops(names, txts, lookups)))
        metas.append((names, txts, lookups))
    # long names over two words (a suffix of a long name that is a stored name of its own is found by following failure links
    # more than once): names of 4 to 6 words with one to three short names, texts that spell the long names and random runs
    for _ in range(1200 if tier == 'thorough' else 150):
        longs = [' '.join(rng.choice('ab') for _ in range(rng.randint(4, 6))) for _ in range(rng.randint(1, 2))]
        shorts = [' '.join(rng.choice('ab') for _ in range(rng.randint(1, 3))) for _ in range(rng.randint(1, 3))]
        names = [(n_, i + 1) for i, n_ in enumerate(dict.fromkeys(rng.sample(longs + shorts, len(longs + shorts))))]
        txts = list(longs) + [' '.join(rng.choice('ab') for _ in range(rng.randint(5, 9))) for _ in range(3)]
        lookups = [longs[0], shorts[0].upper(), 'a']
        reqs.append((12, model_ops(names, txts, lookups)))
        metas.append((names, txts, lookups))
        rep.count('long_two_word_name_sets')
    # letters whose case folding is not their lower-casing: storing, looking up and scanning must agree on str.lower()
    for names, txts in (
            ([('straße license', 1), ('mit', 2)], ['the straße license applies', 'STRASSE LICENSE strasse license', 'mit or STRAßE  License']),
            ([('Maß', 1), ('mass', 2)], ['mit or Maß', 'MASS mass Maß maß']),
            ([('ſmall print', 1), ('small print', 2)], ['see ſmall print here small print', 'SMALL PRINT']),
            ([('λόγος', 1), ('λόγοσ', 2)], ['o λόγος λόγοσ 2.0']),
            ([('ﬁle lic', 1), ('file lic', 2)], ['ﬁle lic file lic FILE LIC']),
            ([('ᎠᎡ 1.0', 1), ('1.0', 2)], ['under ᎠᎡ 1.0 only'])):
        lookups = [names[0][0], names[0][0].upper(), names[-1][0], 'x']
        # the model lower-cases character by character: keep only strings on which str.lower() does the same (no final sigma)
        lookups = [q for q in lookups if ''.join(c.lower() for c in q) == q.lower()]
        assert all(''.join(c.lower() for c in x) == x.lower() for x in [n_ for n_, _ in names] + txts)
        reqs.append((12, model_ops(names, txts, lookups)))
        metas.append((names, txts, lookups))
        rep.count('case_fold_name_sets')
    res = run_model(reqs, chunk=200)
    for (names, txts, lookups), r in zip(metas, res):
        err, obs = run_case(names, txts, lookups, le)
        for t in txts:
            rep.case(('rnd', tuple(names), t), nontrivial=bool(brute(names, t)),
                     sample={'names': names, 'text': t, 'occurrences': brute(names, t)})
        rep.count('random_sets')
        if err:
            rep.violations.append({'key': 'matcher', 'kind': 'trie', 'names': names, 'texts': txts, 'lookups': lookups,
                                   'what': err, 'text': err})
            continue
        rep.compared += len(obs)
        if canon_model(r) != canon_impl(obs) and len(rep.broken) < 5:
            diff = [(i, a, b) for i, (a, b) in enumerate(zip(canon_model(r), canon_impl(obs))) if a != b][:2]
            rep.broken.append('correspondence C16: names %r: first differences (index, model, implementation) %r' % (names, diff))


def replay(payload):
    le = imp()
    names = [tuple(x) for x in payload['names']]
    err, _ = run_case(names, payload.get('texts', []), payload.get('lookups', []), le)
    return err is None, err or 'matcher behaves as a map and reports exactly the occurrences'
