"""
C13 — License symbols behave as values identified by key and exception flag.

Correspondence: every ordered pair of a pool of symbols of the three kinds (plain, wrapped user
object, WITH pair): ==, <, str against the model's atom_eqb / atom_ltb / atom_str; a stream of key
strings through LicenseSymbol(...) against the model's mk_key.
Spec oracle (independent of the model, run on the implementation): the property text.
"""
import copy
import itertools
import random

from core import (imp, run_model, enc_atom, enc_str, dec_str, outcome_of, enc_sym)

RULE = ('all ordered pairs (and sampled triples) of a pool of plain / wrapped / WITH symbols; key strings: exhaustive '
        'over a 12-character alphabet up to length 2-3 plus seeded random Unicode keys; a case is non-trivial when '
        'distinct from all others (pairs by (repr a, repr b), keys by text)')
ASSUMPTIONS = ['exception flags are True / False (the falsy "" flag that build_licensing can inject is read through bool())',
               'comparisons are between symbols; a symbol compared with a raw user object is outside the property']


class UserLic(object):
    def __init__(self, key, is_exception=False, aliases=()):
        self.key = key
        self.is_exception = is_exception
        self.aliases = aliases


class OtherLic(object):
    __slots__ = ('key', 'is_exception')

    def __init__(self, key, is_exception=False):
        self.key = key
        self.is_exception = is_exception


def pool(le, rng):
    keys = ['mit', 'MIT', 'gpl', 'gpl 2.0', 'a', 'b', 'a WITH b', 'a with b', 'x', 'İ', 'a b', 'GPL', 'GPL 2', 'GPL 3', 'GPL+']
    syms = []
    for k in keys:
        for ex in (False, True):
            syms.append(le.LicenseSymbol(k, is_exception=ex))
    for k in keys[:6]:
        for ex in (False, True):
            syms.append(le.LicenseSymbolLike(UserLic(k, ex, aliases=('al ' + k,))))
            syms.append(le.LicenseSymbolLike(OtherLic(k, ex)))
    plain = list(syms)
    for _ in range(14):
        l, r = rng.choice(plain), rng.choice(plain)
        syms.append(le.LicenseWithExceptionSymbol(l, r))
    for lk, rk in (('a WITH b', 'c'), ('a', 'b WITH c'), ('a WITH b', 'b WITH c'), ('a', 'b'), ('a with b', 'c')):
        for lf in (False, True):
            syms.append(le.LicenseWithExceptionSymbol(le.LicenseSymbol(lk, is_exception=lf), le.LicenseSymbol(rk)))
    syms.append(le.LicenseWithExceptionSymbol(le.LicenseSymbol('a'), le.LicenseSymbol('b')))
    syms.append(le.LicenseWithExceptionSymbol(le.LicenseSymbol('a'), le.LicenseSymbol('b', is_exception=True)))
    return syms


def spec_of(a, le):
    """A description from which the very same kind of symbol object can be rebuilt (plain, wrapped user object, WITH)."""
    if isinstance(a, le.LicenseWithExceptionSymbol):
        return ['with', spec_of(a.license_symbol, le), spec_of(a.exception_symbol, le)]
    if isinstance(a, le.LicenseSymbolLike):
        w = a.wrapped
        return ['like', type(w).__name__, w.key, bool(w.is_exception), list(getattr(w, 'aliases', ()) or ())]
    return ['plain', a.key, bool(a.is_exception), list(a.aliases or ())]


def build_spec(spec, le):
    if spec[0] == 'with':
        return le.LicenseWithExceptionSymbol(build_spec(spec[1], le), build_spec(spec[2], le))
    if spec[0] == 'like':
        if spec[1] == 'UserLic':
            return le.LicenseSymbolLike(UserLic(spec[2], spec[3], aliases=tuple(spec[4])))
        return le.LicenseSymbolLike(OtherLic(spec[2], spec[3]))
    return le.LicenseSymbol(spec[1], is_exception=spec[2], aliases=tuple(spec[3]))


def fields(a, le):
    if isinstance(a, le.LicenseWithExceptionSymbol):
        return ('W', fields(a.license_symbol, le), fields(a.exception_symbol, le))
    return ('P', a.key, bool(a.is_exception))


def oracle_pair(a, b, le):
    """Property text evaluated on the implementation for one ordered pair. Returns error text or None."""
    fa, fb = fields(a, le), fields(b, le)
    eq = (a == b)
    if eq != (fa == fb):
        return '== is %r but fields are %r / %r' % (eq, fa, fb)
    if (a != b) == eq:
        return '!= is not the negation of =='
    if eq and hash(a) != hash(b):
        return 'equal symbols hash differently'
    if not bool(a):
        return 'symbol is falsy'
    sa, sb = str(a), str(b)
    if sa != sb:
        lt, gt = (a < b), (b < a)
        if lt == gt or lt != (sa < sb):
            return '< does not follow the string order of the renderings: %r %r' % (sa, sb)
    return None


def oracle_key(k, le):
    """Property text for creating a symbol from a text key. Returns error text or None."""
    def ok_char(c):
        return c.isalnum() or c == '_' or c in '.:+-' or c.isspace()
    stripped = k.strip()
    norm = ' '.join(stripped.split())
    expect_ok = bool(k) and bool(stripped) and all(ok_char(c) for c in stripped) and norm.lower() not in ('and', 'or', 'with')
    try:
        s = le.LicenseSymbol(k)
        got_ok, got_key = True, s.key
    except le.ExpressionError:
        got_ok, got_key = False, None
    except Exception as e:   # noqa
        return 'LicenseSymbol(%r) raised %s' % (k, type(e).__name__)
    if got_ok != expect_ok:
        return 'LicenseSymbol(%r) accepted=%r, the rule says %r' % (k, got_ok, expect_ok)
    if got_ok and got_key != norm:
        return 'LicenseSymbol(%r).key = %r, expected %r' % (k, got_key, norm)
    return None


def key_stream(rng, tier):
    alpha = ['a', 'B', '1', '_', '.', ':', '+', '-', ' ', ',', '\t', '(']
    out = ['', ' ', 'and', 'AND', 'Or', 'with', ' or ', 'and or', 'a  b', ' a\tb ', 'mit\n', 'İ', 'ª', '١', 'a​b',
           'a b', 'GPL-2.0+', 'c:d', 'x/y', 'a\x1cb', 'or\x85', '　and　',
           # line breaks inside a key are white space like any other: what follows them is checked too
           'mit\n/x', 'mit\n(gpl)', 'GPL-2.0\r\n@home', 'a\nb\n"c"', 'mit\n, bsd', 'GPL\n2.0+', ' mit \r\n or-later:x_1 ', 'a\n\nb', 'x\r/y']
    n = 3 if tier == 'thorough' else 2
    for l in range(1, n + 1):
        for t in itertools.product(alpha, repeat=l):
            out.append(''.join(t))
    pool_chars = alpha + ['İ', 'ß', 'é', '中', ' ', ' ', 'ǅ', '²', '"', '\x00', '·']
    for _ in range(3000 if tier == 'thorough' else 600):
        out.append(''.join(rng.choice(pool_chars) for _ in range(rng.randint(1, 8))))
    return out


def run(rep, tier, seed):
    le = imp()
    rng = random.Random(seed)
    syms = pool(le, rng)
    pairs = list(itertools.product(range(len(syms)), repeat=2))
    reqs = [(1, [enc_atom(syms[i]), enc_atom(syms[j])]) for i, j in pairs]
    res = run_model(reqs)
    rep.compared = 0
    for (i, j), r in zip(pairs, res):
        a, b = syms[i], syms[j]
        got = [1 if a == b else 0, 1 if a < b else 0, 1 if b < a else 0, 1 if a == b else 0, enc_str(str(a))]
        rep.case(('pair', repr(a), repr(b)), sample={'a': repr(a), 'b': repr(b), '==': a == b, '<': a < b})
        rep.compared += 1
        rep.count('pairs')
        err = oracle_pair(a, b, le)
        if err:
            rep.violations.append({'key': 'pair', 'kind': 'pair', 'a': enc_atom(a), 'b': enc_atom(b), 'what': err,
                                   'spec_a': spec_of(a, le), 'spec_b': spec_of(b, le)})
        elif got != r:
            rep.broken = getattr(rep, 'broken', []) + [
                'correspondence C13/pair: model %r implementation %r for %r, %r' % (r, got, a, b)]
    # copies
    for a in syms:
        c = copy.copy(a)
        rep.case(('copy', repr(a)), nontrivial=False)
        if not (c == a and a == c and hash(c) == hash(a)):
            rep.violations.append({'key': 'copy', 'kind': 'copy', 'a': enc_atom(a), 'what': 'copy differs from original'})
        if not isinstance(a, le.LicenseWithExceptionSymbol) and tuple(getattr(c, 'aliases', ())) != tuple(getattr(a, 'aliases', ())):
            rep.violations.append({'key': 'copy-aliases', 'kind': 'copy', 'a': enc_atom(a), 'what': 'copy lost aliases'})
    # sorted() agrees with the model's order on triples
    for _ in range(400 if tier == 'quick' else 4000):
        t = [rng.choice(syms) for _ in range(3)]
        s = sorted(t)
        rep.case(('triple', tuple(map(repr, t))), nontrivial=True)
        rep.count('triples')
        for x, y in zip(s, s[1:]):
            if y < x:
                rep.violations.append({'key': 'sorted', 'kind': 'triple', 'syms': [enc_atom(v) for v in t],
                                       'what': 'sorted() output has an inversion'})
    # keys
    keys = key_stream(rng, tier)
    keys = [k for k in dict.fromkeys(keys)]
    usable = [k for k in keys if ''.join(c.lower() for c in k) == k.lower()]
    res = run_model([(2, enc_str(k)) for k in usable])
    for k, r in zip(usable, res):
        got = outcome_of(lambda: le.LicenseSymbol(k).key, enc_str)
        rep.case(('key', k), sample={'key': k, 'outcome': 'accepted' if got[0] == 0 else 'refused'})
        rep.compared += 1
        rep.count('keys_accepted' if got[0] == 0 else 'keys_refused')
        err = oracle_key(k, le)
        if err:
            rep.violations.append({'key': 'mk_key', 'kind': 'key', 'text': k, 'what': err})
        elif got != r:
            rep.broken = getattr(rep, 'broken', []) + [
                'correspondence C13/mk_key: model %r implementation %r for key %r' % (r, got, k)]
    # non-text keys are refused with ExpressionError
    rep.case(('nontext', 'all'), nontrivial=False)
    rep.count('nontext_keys', len(NONTEXT))
    err = nontext_error(le)
    if err:
        rep.violations.append({'key': 'nontext', 'kind': 'nontext', 'text': err[0], 'what': err[1]})


# bytes that would decode to a fine key are not text either
NONTEXT = (None, 0, 3.5, True, [], (), {}, ('mit',), ['mit'], b'', b'mit', b'  gpl   2.0  ', 'caf\u00e9-1.0'.encode('utf-8'), b'gpl-2.0+',
           bytearray(b'mit'), memoryview(b'mit'), object())


def nontext_error(le):
    from core import UserRecord
    makers = (('LicenseSymbol(%r)', lambda k: le.LicenseSymbol(k)), ('LicenseSymbol(%r, is_exception=True)', lambda k: le.LicenseSymbol(k, is_exception=True)),
              ('LicenseSymbolLike(<object with key %r>)', lambda k: le.LicenseSymbolLike(UserRecord(k))))
    for k in NONTEXT:
        for fmt, mk in makers:
            try:
                r = mk(k)
                return (repr(k), 'non-text key accepted: %s returned %r' % (fmt % (k,), r))
            except le.ExpressionError:
                pass
            except Exception as e:   # noqa
                return (repr(k), '%s raised %s' % (fmt % (k,), type(e).__name__))
    return None


def replay(payload):
    le = imp()
    from core import build_expr
    if payload.get('kind') == 'nontext':
        err = nontext_error(le)
        return (err is None, err[1] if err else 'non-text keys are refused')
    if payload.get('kind') == 'key':
        err = oracle_key(payload['text'], le)
        return (err is None, err or 'key rule holds')
    if payload.get('kind') == 'pair':
        if 'spec_a' in payload:
            a, b = build_spec(payload['spec_a'], le), build_spec(payload['spec_b'], le)
        else:
            a = build_expr([0, payload['a']])
            b = build_expr([0, payload['b']])
        err = oracle_pair(a, b, le)
        return (err is None, err or 'pair laws hold')
    return (True, 'nothing to replay for this kind')
