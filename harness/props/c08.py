"""
C08 — Equivalence and containment obey their algebraic laws.

Correspondence: is_equivalent / contains / == of the implementation against the model on pairs of
trees. Spec oracle on the implementation: reflexivity, symmetry, soundness by truth tables,
positive answers for rewritten variants, same answer on three Licensing instances and for strings
as for parsed objects, contains(a, a), contains respects equivalence, WITH contains its parts,
contains(a, b) implies the licenses of simplified b occur in a.
"""
import random

from core import enc_str, imp, run_model, enc_expr, build_expr
import algebra
import gen

RULE = ('seeded pairs (a, b): b is an independent tree, a rewritten variant of a, a sub-operand of a, or a with one operand '
        'dropped; every pair is asked of three Licensing instances (no table, a table, a table with aliases) and as '
        'strings; non-trivial = at least one side is not a single license; distinct by the pair')
ASSUMPTIONS = ['"the same answer on every Licensing instance" is checked for already-parsed expressions; for strings the '
               'answer is compared with the answer for their parses on the same instance']

KEYS = ['mit', 'gpl', 'bsd', 'x', 'cp', 'a', 'b', 'c']


def instances(le):
    return [
        le.Licensing(),
        le.Licensing(['mit', 'gpl', 'zlib']),
        le.Licensing([le.LicenseSymbol('mit', aliases=('MIT license',)), le.LicenseSymbol('cp', is_exception=True)]),
    ]


def atoms_dec(tree):
    out = set()
    for a in algebra.atoms_of(tree):
        out.add(a)
        if a[0] == 'W':
            out.add(('P', a[1], a[2]))
            out.add(('P', a[3], a[4]))
    return out


def check_pair(a, b, kind, le, Ls):
    ea, eb = build_expr(a), build_expr(b)
    L0 = Ls[0]
    eq = L0.is_equivalent(ea, eb)
    co = L0.contains(ea, eb)
    for L in Ls[1:]:
        if L.is_equivalent(ea, eb) != eq or L.contains(ea, eb) != co:
            return 'answer depends on the Licensing instance', eq, co
    if L0.is_equivalent(eb, ea) != eq:
        return 'is_equivalent is not symmetric', eq, co
    if not L0.is_equivalent(ea, ea) or not L0.contains(ea, ea):
        return 'is_equivalent(a, a) or contains(a, a) is False', eq, co
    if eq and algebra.same_truth(a, b) is False:
        return 'is_equivalent is True for different truth tables', eq, co
    if kind == 'rewrite' and not eq:
        return 'rewritten variant is not equivalent', eq, co
    if kind == 'rewrite':
        # contains gives the same answer when an argument is replaced by an equivalent one
        if L0.contains(ea, ea) != L0.contains(eb, ea) or L0.contains(ea, eb) != L0.contains(ea, ea):
            return 'contains distinguishes equivalent expressions', eq, co
    # the same expressions over wrapped user objects (as parsed over a table of objects): same answers
    la, lb = build_expr(a, like=True), build_expr(b, like=True)
    for x, y in ((ea, lb), (la, eb), (la, lb)):
        if L0.is_equivalent(x, y) != eq or L0.is_equivalent(y, x) != eq or L0.contains(x, y) != co:
            return 'answer depends on how the symbols are represented (plain symbol / wrapped user object)', eq, co
    # and over mixtures: plain symbols, wrapped user objects, instances of a user's subclass of LicenseSymbol, with other aliases
    for seed_a, seed_b in ((1, 2), (3, 1)):
        ma, mb = build_expr(a, like=seed_a), build_expr(b, like=seed_b)
        for x, y in ((ma, eb), (ea, mb), (ma, mb)):
            if L0.is_equivalent(x, y) != eq or L0.is_equivalent(y, x) != eq or L0.contains(x, y) != co:
                return 'answer depends on how the symbols are represented (mixtures of plain symbols, user subclasses, wrapped objects)', eq, co
    if co:
        sb = enc_expr(eb.simplify())
        if not set(algebra.atoms_of(sb)) <= atoms_dec(a):
            return 'contains(a, b) but a license of simplified b does not occur in a', eq, co
    # strings as parsed objects (plain keys only render / re-parse faithfully on the empty table)
    sa, sb_ = str(ea), str(eb)
    try:
        pa, pb = L0.parse(sa), L0.parse(sb_)
        if enc_expr(pa) == a and enc_expr(pb) == b:
            if L0.is_equivalent(sa, sb_) != eq or L0.contains(sa, sb_) != co:
                return 'strings and parsed objects give different answers', eq, co
    except le.ExpressionError:
        pass
    return None, eq, co


def run(rep, tier, seed):
    le = imp()
    for bad in string_questions(le)[:1]:
        rep.violations.append({'key': 'strings', 'kind': 'strings', 'what': bad['what'], 'text': '%s / %s' % (bad['a'], bad['b'])})
    rep.count('string_question_sequences', 18)
    for bad in producer_questions(le)[:1]:
        rep.violations.append({'key': 'producers', 'kind': 'producers', 'what': bad['what'], 'text': '%s / %s' % (bad['a'], bad['b'])})
    rep.count('producer_question_objects', 2 * 7 * 7)
    Ls = instances(le)
    rng = random.Random(seed)
    n = 12000 if tier == 'thorough' else 1200
    pairs = []
    for i in range(n):
        if i % 7 == 6:
            a = gen.gen_tree(rng, depth=rng.randint(1, 2), maxar=3, atoms=gen.clash_atoms())
        elif i % 7 == 5:
            a = gen.gen_tree(rng, depth=2, maxar=3, atoms=gen.with_part_atoms())
        else:
            a = gen.gen_tree(rng, depth=rng.randint(0, 3), maxar=3, keys=KEYS, collide=(i % 5 == 0))
        r = rng.random()
        kind = 'independent'
        b = None
        if r < 0.35 and a[0] != 0:
            v = a
            for _ in range(rng.randint(1, 3)):
                rw = algebra.rewrite_once(rng, v, lambda: [0, gen.gen_atom(rng, KEYS)])
                if rw:
                    v = rw[1]
            b, kind = v, 'rewrite'
        elif r < 0.55 and a[0] != 0:
            b, kind = rng.choice(a[1]), 'operand'
        elif r < 0.7 and a[0] != 0 and len(a[1]) > 2:
            j = rng.randrange(len(a[1]))
            b, kind = [a[0], a[1][:j] + a[1][j + 1:]], 'dropped'
        elif r < 0.78:
            # soundness: an expression and its own simplified form are equivalent by construction, so their truth
            # tables must agree
            b, kind = enc_expr(build_expr(a).simplify()), 'simplified'
        elif r < 0.82:
            # the same expression with the exception flag of one symbol occurrence flipped (a license and an exception of one
            # key, a WITH pair and the pair over the same keys with another flag on one side, are different licenses)
            paths = [p_ for p_ in algebra.nodes_paths(a) if algebra.get_at(a, p_)[0] == 0]
            p_ = rng.choice(paths)
            at = algebra.get_at(a, p_)[1]
            import copy
            at2 = copy.deepcopy(at)
            part = at2[1] if at2[0] == 0 else rng.choice([at2[1], at2[2]])
            part[1] = 1 - part[1]
            b, kind = algebra.set_at(a, p_, [0, at2]), 'flag-variant'
        elif r < 0.87:
            at = gen.gen_atom(rng, KEYS)
            if at[0] == 1:
                a = [0, at]
                b, kind = [0, [0, rng.choice([at[1], at[2]])]], 'with-part'
        if b is None:
            b = gen.gen_tree(rng, depth=rng.randint(0, 2), maxar=3, keys=KEYS)
        pairs.append((a, b, kind))
    # a flat node all of whose operands are one license is that license (repetition), on both sides and nested once
    for at in ([0, [enc_str('mit'), 0]], [1, [enc_str('gpl'), 0], [enc_str('cp'), 1]], [0, [enc_str('a b'), 0]]):
        x = [0, at]
        for op in (1, 2):
            for k in (2, 3):
                pairs.append(([op, [x] * k], x, 'rewrite'))
                pairs.append((x, [op, [x] * k], 'rewrite'))
            pairs.append(([op, [x, [3 - op, [x, x]]]], x, 'rewrite'))
    res = run_model([(6, [a, b]) for a, b, _ in pairs])
    rep.compared = 0
    rep.broken = []
    for (a, b, kind), r in zip(pairs, res):
        err, eq, co = check_pair(a, b, kind, le, Ls)
        rep.case((a, b), nontrivial=(a[0] != 0 or b[0] != 0),
                 sample={'a': str(build_expr(a)), 'b': str(build_expr(b)), 'kind': kind, 'equivalent': eq, 'contains': co})
        rep.count('kind_' + kind)
        rep.count('equivalent' if eq else 'not_equivalent')
        rep.count('contains' if co else 'not_contains')
        if kind == 'with-part' and not co and not err:
            err = 'a WITH pair does not contain one of its parts'
        if err:
            rep.violations.append({'key': 'laws', 'kind': 'pair', 'a': a, 'b': b, 'pairkind': kind, 'what': err,
                                   'text': [str(build_expr(a)), str(build_expr(b))]})
            continue
        rep.compared += 1
        got = [1 if eq else 0, 1 if co else 0, 1 if build_expr(a) == build_expr(b) else 0]
        if got != r[:3] and len(rep.broken) < 5:
            rep.broken.append('correspondence C08: pair (%s, %s) model %r implementation %r'
                              % (build_expr(a), build_expr(b), r[:3], got))


def string_questions(le):
    """Strings as parsed objects, on one shared instance asked repeatedly under both tokenizers and in both orders: the answer
    for two strings is the answer for their parses (same tokenizer) on a fresh instance, whatever was asked before."""
    T0 = [le.LicenseSymbol('GPL-2.0', aliases=('gpl2', 'GNU GPL 2')), le.LicenseSymbol('mit', aliases=('MIT license',)),
          le.LicenseSymbol('cp', is_exception=True)]
    pairs = [('gpl2', 'GPL-2.0'), ('gpl2 or mit', 'mit or GPL-2.0'), ('gpl2 and mit', 'GPL-2.0'), ('mit or GPL-2.0', 'gpl2'),
             ('GNU GPL 2 with cp', 'gpl-2.0 WITH cp'), ('mit', 'MIT'), ('foo and mit', 'mit and FOO'),
             # names of several words nobody declared: one license each under the default tokenizer, on every table
             ('GPL 2.0 and mit', 'mit and GPL 2.0'), ('Apache 2.0 or (mit and bsd new)', '(bsd new and mit) or Apache 2.0'),
             ('public domain', 'public domain'), ('bsd new and mit', 'bsd new')]
    out = []
    # the same questions on a table with names, on a table with one name, on no table at all
    for T in (T0, [le.LicenseSymbol('mit')], None):
        new = (lambda: le.Licensing(T)) if T is not None else (lambda: le.Licensing())
        for order in ((False, True), (True, False), (None, True), (True, None), (None, False), (False, None)):
            L = new()
            for simple in order:
                kw = {} if simple is None else {'simple': simple}
                for a, b in pairs:
                    F = new()
                    try:
                        pa, pb = F.parse(a, **kw), F.parse(b, **kw)
                    except le.ExpressionError:
                        continue
                    for name in ('is_equivalent', 'contains'):
                        want = getattr(F, name)(pa, pb)
                        try:
                            got = getattr(L, name)(a, b, **kw)
                        except Exception as ex:   # noqa
                            got = 'raised %r' % (ex,)
                        if got != want:
                            out.append({'what': '%s(%r, %r, %r) on strings is %r on a Licensing over %r after the questions %r; on their '
                                                'parses it is %r' % (name, a, b, kw, got, None if T is None else [x.key for x in T], order, want),
                                        'a': a, 'b': b, 'order': list(order)})
    return out


def producer_questions(le):
    """Expression objects as they come out of parse, dedup, simplify and combine_expressions are arguments like any other: the
    answers for such an object are the answers for the text it was made from (dedup, simplify and combining a text with itself
    keep the meaning: C06, C09) and for its own rendering."""
    T0 = [le.LicenseSymbol('gpl-2.0', aliases=('gpl2',)), le.LicenseSymbol('mit'), le.LicenseSymbol('bsd-new'), le.LicenseSymbol('cp', is_exception=True)]
    texts = ['mit OR (mit AND gpl-2.0)', 'mit AND (mit OR bsd-new)', '(mit AND gpl-2.0) AND bsd-new', 'mit or (gpl-2.0 and mit and gpl-2.0)',
             'gpl-2.0 with cp or mit or gpl-2.0 with cp', 'bsd-new and (mit or (gpl-2.0 and (mit or gpl-2.0)))', 'mit']
    probes = ['mit', 'gpl-2.0', 'bsd-new and mit', 'gpl-2.0 with cp', 'mit or gpl-2.0']
    producers = [('parse', lambda L, t: L.parse(t)), ('dedup', lambda L, t: L.dedup(t)), ('parse+simplify', lambda L, t: L.parse(t).simplify()),
                 ('dedup of an object', lambda L, t: L.dedup(L.parse(t))), ('simplify of dedup', lambda L, t: L.dedup(t).simplify()),
                 ('combine_expressions', lambda L, t: le.combine_expressions([t, t], 'AND', licensing=L)),
                 ('dedup of simplify', lambda L, t: L.dedup(L.parse(t).simplify()))]
    out = []
    for T in (T0, None):
        new = (lambda: le.Licensing(T)) if T is not None else (lambda: le.Licensing())
        L = new()
        for t in texts:
            for pname, prod in producers:
                def ask(name, a, b, want, what):
                    try:
                        got = getattr(L, name)(a, b)
                    except Exception as ex:   # noqa
                        got = 'raised %r' % (ex,)
                    if got != want:
                        out.append({'what': '%s: %s(%s) is %r, expected %r (object from %s of %r on a Licensing over %r)'
                                            % (what, name, ', '.join(x if isinstance(x, str) else '<object %s>' % x for x in (a, b)), got, want,
                                               pname, t, None if T is None else [x.key for x in T]), 'a': t, 'b': pname})
                obj = prod(L, t)
                for name in ('is_equivalent', 'contains'):
                    ask(name, obj, t, True, 'an object and the text it was made from')
                    ask(name, t, obj, True, 'the text and the object made from it')
                    ask(name, prod(L, t), str(obj), True, 'an object and its own rendering')
                    ask(name, str(obj), prod(L, t), True, 'the rendering of an object and the object')
                    for q in probes:
                        F = new()
                        ask(name, prod(L, t), q, getattr(F, name)(t, q), 'an object where its text stood')
                        ask(name, q, prod(L, t), getattr(F, name)(q, t), 'an object where its text stood')
    return out


def replay(payload):
    le = imp()
    if payload.get('kind') == 'producers':
        bad = producer_questions(le)
        return (not bad, bad[0]['what'] if bad else 'objects answer as their texts')
    if payload.get('kind') == 'strings':
        bad = string_questions(le)
        return (not bad, bad[0]['what'] if bad else 'strings answer as their parses')
    err, eq, co = check_pair(payload['a'], payload['b'], payload.get('pairkind', 'independent'), le, instances(le))
    return (err is None, err or 'laws hold on this pair')
