"""
C06 — Simplification preserves the meaning of the expression.

Correspondence: simplify() of the implementation against the model's simplify on the same trees,
compared structurally. Spec oracle on the implementation: equal truth tables (every distinct
(key, flag, kind) atom is a variable) and no new license.
"""
import random

from core import imp, run_model, enc_expr, build_expr, outcome_of, REPRESENTATIONS
import algebra
import gen

RULE = ('exhaustive: all trees of depth <= 2 over 3 (quick) / 4 (thorough) atoms incl. same key with both flags and a WITH '
        'pair, arity 2 (quick) / <= 3 (thorough); plus seeded random trees (depth <= 4, arity <= 4, collision stream '
        'with equal renderings); a case is non-trivial when the tree is not a single license; distinct by structure')
ASSUMPTIONS = ['boolean.py branches for NOT / TRUE / FALSE are unreachable from license expressions and are not modelled; '
               'an unmodelled branch that fired would show as a structural difference in the correspondence']


def cases(tier, rng):
    if tier == 'thorough':
        ex = algebra.enum_trees(4, 3, 1) + algebra.enum_trees(3, 2, 2)
        nrand = 20000
    else:
        ex = algebra.enum_trees(3, 2, 2)
        nrand = 1500
    out = list(ex)
    clash = gen.clash_atoms()
    for i in range(nrand):
        if i % 6 == 5:
            out.append(gen.gen_tree(rng, depth=rng.randint(1, 2), maxar=4, atoms=clash))
        elif i % 6 == 4:
            out.append(gen.gen_tree(rng, depth=2, maxar=3, atoms=gen.with_part_atoms()))
        else:
            out.append(gen.gen_tree(rng, depth=rng.randint(1, 4), maxar=4, collide=(i % 3 == 0)))
    return out, len(ex)


def check_one(tree, le):
    """Spec oracle on the implementation. Returns (error text or None, simplified encoded tree)."""
    e = build_expr(tree)
    s = e.simplify()
    st = enc_expr(s)
    same = algebra.same_truth(tree, st)
    if same is False:
        return 'truth table changed', st
    if not set(algebra.atoms_of(st)) <= set(algebra.atoms_of(tree)):
        return 'simplify() mentions a license absent from the input', st
    # without the final sorting of the operands (simplify(sort=False)) the meaning is kept as well, and no license appears
    if tree[0] != 0:
        su = enc_expr(build_expr(tree).simplify(sort=False))
        if algebra.same_truth(tree, su) is False:
            return 'truth table changed by simplify(sort=False)', st
        if not set(algebra.atoms_of(su)) <= set(algebra.atoms_of(tree)):
            return 'simplify(sort=False) mentions a license absent from the input', st
    # the same tree over wrapped user objects, or over a mixture of both kinds of symbol, simplifies to the same expression
    for like in REPRESENTATIONS:
        sv = enc_expr(build_expr(tree, like=like).simplify())
        if sv != st:
            if algebra.same_truth(tree, sv) is False:
                return 'truth table changed when licenses are wrapped user objects', st
            return 'simplify() depends on how the licenses are represented (plain symbol / wrapped user object)', st
    return None, st


def run(rep, tier, seed):
    le = imp()
    rng = random.Random(seed)
    trees, nex = cases(tier, rng)
    rep.exhaustive = False
    res = run_model([(5, t) for t in trees])
    rep.compared = 0
    rep.broken = []
    for i, (t, r) in enumerate(zip(trees, res)):
        err, st = check_one(t, le)
        rep.case(t, nontrivial=(t[0] != 0), sample={'tree': str(build_expr(t)), 'simplified': str(build_expr(st))})
        rep.count('exhaustive' if i < nex else 'random')
        rep.compared += 1
        if err:
            small = gen.shrink_tree(t, lambda c: check_one(c, le)[0] is not None)
            rep.violations.append({'key': 'truth', 'kind': 'tree', 'tree': small, 'text': str(build_expr(small)), 'what': err})
        elif st != r and len(rep.broken) < 5:
            rep.broken.append('correspondence C06/simplify: tree %s model %r implementation %r' % (build_expr(t), r, st))


def replay(payload):
    le = imp()
    err, st = check_one(payload['tree'], le)
    return (err is None, err or 'truth table and licenses preserved')
