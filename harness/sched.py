"""
Deterministic scheduler for Python threads at line granularity, built on sys.settrace.

Each controlled thread runs one callable. A schedule is a list of (thread index, number of line
events to run) segments; the last segment of each thread lets it run to completion. Only one thread
runs at a time (a baton is passed at line events of the traced source files), so an execution is
reproduced exactly by its schedule.

A thread that holds the baton and stops producing line events (it waits for a lock that a suspended thread holds) is
taken to be blocked after STALL seconds: the baton goes on to the next segment of the schedule, and the blocked thread
queues for the baton again at its next line event. Code without blocking primitives never meets this.
"""
import os
import sys
import threading
import time

STALL = 0.2

TRACED = ('license_expression' + os.sep + '__init__.py', 'license_expression' + os.sep + '_pyahocorasick.py')


class Run(object):
    def __init__(self, fns, schedule, on_line=None, timeout=20.0):
        self.fns = fns
        self.schedule = list(schedule)         # [(tid, nlines or None), ...]
        self.on_line = on_line
        self.timeout = timeout
        self.cv = threading.Condition()
        self.turn = None
        self.budget = None
        self.done = [False] * len(fns)
        self.results = [None] * len(fns)
        self.errors = [None] * len(fns)
        self.lines = [0] * len(fns)
        self.deadlock = False
        self.progress = time.monotonic()
        self.blocked = set()
        self.awaited = None
        self.stalls = 0

    def _next_segment(self):
        """Called with the lock held: choose who runs next."""
        self.progress = time.monotonic()
        while self.schedule:
            tid, n = self.schedule.pop(0)
            if self.done[tid]:
                continue
            if tid in self.blocked:
                # it may just have been released: wait a moment for its next line event before passing it over
                self.turn, self.budget, self.awaited = None, None, (tid, n)
                self.cv.notify_all()
                return
            self.turn, self.budget = tid, n
            self.cv.notify_all()
            return
        # schedule exhausted: let the remaining threads finish in index order, those not known to be blocked first
        for tid, d in enumerate(self.done):
            if not d and tid not in self.blocked:
                self.turn, self.budget = tid, None
                self.cv.notify_all()
                return
        for tid, d in enumerate(self.done):
            if not d:
                self.blocked.discard(tid)
                self.turn, self.budget = tid, None
                self.cv.notify_all()
                return
        self.turn = None
        self.cv.notify_all()

    def _wait_turn(self, tid):
        with self.cv:
            while self.turn != tid:
                if not self.cv.wait(self.timeout):
                    self.deadlock = True
                    raise SystemExit

    def _tracer(self, tid):
        def local(frame, event, arg):
            if event == 'line':
                if self.turn != tid:
                    # a thread that was taken to be blocked runs again: it queues for the baton (and takes it when the
                    # schedule was waiting for it)
                    with self.cv:
                        if self.turn != tid:
                            self.blocked.discard(tid)
                            if self.turn is None and self.awaited is not None and self.awaited[0] == tid:
                                self.turn, self.budget, self.awaited = tid, self.awaited[1], None
                                self.progress = time.monotonic()
                                self.cv.notify_all()
                    self._wait_turn(tid)
                self.lines[tid] += 1       # the monitor reads the sum of these counters as progress
                if self.on_line:
                    self.on_line(tid, frame, 'line')
                if self.budget is not None:
                    with self.cv:
                        if self.turn == tid and self.budget is not None:
                            self.budget -= 1
                            if self.budget <= 0:
                                self._next_segment()
                    self._wait_turn(tid)
            elif event == 'return' and self.on_line:
                self.on_line(tid, frame, 'return')
            return local

        def glob(frame, event, arg):
            if event == 'call' and frame.f_code.co_filename.endswith(TRACED):
                return local
            return None
        return glob

    def _body(self, tid):
        self._wait_turn(tid)
        sys.settrace(self._tracer(tid))
        try:
            self.results[tid] = self.fns[tid]()
        except SystemExit:
            sys.settrace(None)
            return
        except BaseException as e:   # noqa
            self.errors[tid] = e
        sys.settrace(None)
        with self.cv:
            self.done[tid] = True
            self._next_segment()

    def go(self):
        ths = [threading.Thread(target=self._body, args=(i,), daemon=True) for i in range(len(self.fns))]
        for t in ths:
            t.start()
        with self.cv:
            self._next_segment()
        deadline = time.monotonic() + self.timeout * 2
        seen = -1
        while time.monotonic() < deadline and not self.deadlock:
            alive = [t for t in ths if t.is_alive()]
            if not alive:
                break
            alive[0].join(0.01)        # returns at once when that thread ends
            now_lines = sum(self.lines)
            if now_lines != seen:
                seen = now_lines
                self.progress = time.monotonic()
                continue
            with self.cv:
                t = self.turn
                if t is None and self.awaited is not None and time.monotonic() - self.progress > STALL:
                    # the awaited thread is still blocked: its segment is passed over
                    self.awaited = None
                    self._next_segment()
                    continue
                if t is not None and not self.done[t] and time.monotonic() - self.progress > STALL:
                    others = [i for i, d in enumerate(self.done) if not d and i != t and i not in self.blocked]
                    if others:
                        # the baton holder makes no progress while somebody else could: it waits for something they hold
                        self.blocked.add(t)
                        self.stalls += 1
                        self._next_segment()
        for t in ths:
            t.join(0.05)
        return self
