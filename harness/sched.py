"""
Deterministic scheduler for Python threads at line granularity, built on sys.settrace.

Each controlled thread runs one callable. A schedule is a list of (thread index, number of line
events to run) segments; the last segment of each thread lets it run to completion. Only one thread
runs at a time (a baton is passed at line events of the traced source files), so an execution is
reproduced exactly by its schedule.
"""
import os
import sys
import threading

TRACED = ('license_expression' + os.sep + '__init__.py', 'license_expression' + os.sep + '_pyahocorasick.py')


class Run(object):
    def __init__(self, fns, schedule, on_line=None, timeout=20.0):
        self.fns = fns
        self.schedule = list(schedule)         # [(tid, nlines or None), ...]
        self.on_line = on_line
        self.timeout = timeout
        self.cv = threading.Condition()
        self.turn = None
        self.budget = None
        self.done = [False] * len(fns)
        self.results = [None] * len(fns)
        self.errors = [None] * len(fns)
        self.lines = [0] * len(fns)
        self.deadlock = False

    def _next_segment(self):
        """Called with the lock held: choose who runs next."""
        while self.schedule:
            tid, n = self.schedule.pop(0)
            if not self.done[tid]:
                self.turn, self.budget = tid, n
                self.cv.notify_all()
                return
        # schedule exhausted: let the remaining threads finish in index order
        for tid, d in enumerate(self.done):
            if not d:
                self.turn, self.budget = tid, None
                self.cv.notify_all()
                return
        self.turn = None
        self.cv.notify_all()

    def _wait_turn(self, tid):
        with self.cv:
            while self.turn != tid:
                if not self.cv.wait(self.timeout):
                    self.deadlock = True
                    raise SystemExit

    def _tracer(self, tid):
        def local(frame, event, arg):
            if event == 'line':
                self.lines[tid] += 1
                if self.on_line:
                    self.on_line(tid, frame, 'line')
                if self.budget is not None:
                    with self.cv:
                        self.budget -= 1
                        if self.budget <= 0:
                            self._next_segment()
                    self._wait_turn(tid)
            elif event == 'return' and self.on_line:
                self.on_line(tid, frame, 'return')
            return local

        def glob(frame, event, arg):
            if event == 'call' and frame.f_code.co_filename.endswith(TRACED):
                return local
            return None
        return glob

    def _body(self, tid):
        self._wait_turn(tid)
        sys.settrace(self._tracer(tid))
        try:
            self.results[tid] = self.fns[tid]()
        except SystemExit:
            sys.settrace(None)
            return
        except BaseException as e:   # noqa
            self.errors[tid] = e
        sys.settrace(None)
        with self.cv:
            self.done[tid] = True
            self._next_segment()

    def go(self):
        ths = [threading.Thread(target=self._body, args=(i,), daemon=True) for i in range(len(self.fns))]
        for t in ths:
            t.start()
        with self.cv:
            self._next_segment()
        for t in ths:
            t.join(self.timeout * 2)
        return self
