"""
Generators for the correspondence checks. Every random choice comes from the random.Random
instance handed in, so a run replays exactly from its seed.
"""
import itertools

SPACES = [' ', ' ', ' ', '\t', '\n', '\r\n', ' ', ' ', '　', '\x1c', '\x85', ' ']

# words chosen to collide: shared prefixes / suffixes / infixes, operator words, non-ASCII letters
# whose lower-case form has another length (U+0130) or is a digraph (U+01C5)
KEY_WORDS = ['gpl', '2.0', 'gnu', 'lesser', 'or', 'later', 'with', 'and', 'exception', 'mit',
             'x', 'bsd', 'classpath', 'v2', 'only', 'lgpl', 'İx', 'ΑΒ', 'ǅz',
             'GPL', 'Mit', 'a', 'b', 'a-b', 'c:d', 'e+', 'f_g']
UNKNOWN_WORDS = ['foo', 'bar', 'orgpl', 'android', 'mito', 'gp', '2', 'withx', 'zz', 'İ',
                 'q.r', 'andy', 'later', 'gnu', 'x', 'lesser',
                 # an operator word followed by a key character that is not a letter is one word, not an operator
                 'or-later', 'with-x', 'and.more', 'OR+', 'with:2']
KEYWORDS = ('and', 'or', 'with')


def lw(s):
    """Lower-cased words of a name or text, as the matcher splits them."""
    out, cur = [], ''
    for c in s:
        if c.isspace():
            if cur:
                out.append(cur)
                cur = ''
        elif c in '()':
            if cur:
                out.append(cur)
                cur = ''
            out.append(c)
        else:
            cur += c
    if cur:
        out.append(cur)
    return [w.lower() for w in out]


def words_of(s):
    out, cur = [], ''
    for c in s:
        if c.isspace():
            if cur:
                out.append(cur)
                cur = ''
        elif c in '()':
            if cur:
                out.append(cur)
                cur = ''
            out.append(c)
        else:
            cur += c
    if cur:
        out.append(cur)
    return out


def table_ok(T):
    """
    The declarative rule of C14 plus: no name is a bare keyword, names are distinct word
    sequences per owner. T: list of (key, aliases, flag).
    """
    owner = {}
    keys = set()
    for k, als, _ in T:
        kl = k.lower()
        if kl in keys:
            return False
        keys.add(kl)
    for k, als, _ in T:
        kl = ' '.join(k.lower().split())
        for n in [k] + list(als):
            nl = ' '.join(n.lower().strip().split())
            if not nl:
                continue
            if nl in ('and', 'or', 'with', '(', ')'):
                return False
            if owner.setdefault(nl, kl) != kl:
                return False
    # the matcher identifies names by their word sequence (parentheses are words)
    wowner = {}
    for k, als, _ in T:
        for n in [k] + list(als):
            w = tuple(lw(n))
            if not w:
                continue
            if wowner.setdefault(w, k.lower()) != k.lower():
                return False
    return True


def gen_key(rng, maxw=3):
    n = 1 if maxw <= 1 else rng.choice([1, 1, 1, 2, 2, 3][:3 + maxw])
    while True:
        ws = [rng.choice(KEY_WORDS) for _ in range(n)]
        k = ' '.join(ws)
        if k.lower() not in KEYWORDS:
            return k


def gen_alias(rng, parens=True):
    a = gen_key(rng)
    r = rng.random()
    if parens and r < 0.25:
        ws = a.split()
        i = rng.randrange(len(ws))
        ws[i] = '(' + ws[i] + ')'
        a = ' '.join(ws)
    elif r < 0.5:
        a = a.upper() if a.upper().lower() == a.lower() else a
    elif r < 0.6:
        a = a.replace(' ', '  ')
    return a


def gen_table(rng, maxn=4, aliases=True, parens=True, single_word=False):
    for _ in range(200):
        n = rng.randint(1, maxn)
        T = []
        for _ in range(n):
            k = gen_key(rng, 1 if single_word else 3)
            als = []
            if aliases and rng.random() < 0.5:
                als = [gen_alias(rng, parens) for _ in range(rng.randint(1, 2))]
            T.append((k, als, rng.random() < 0.3))
        if table_ok(T):
            return T
    return [('mit', [], False)]


def names_of(T):
    """All (name, entry index) pairs of a table; aliases space-normalised as the tokenizer does."""
    out = []
    for i, (k, als, _) in enumerate(T):
        out.append((k, i))
        for a in als:
            if a:
                out.append((' '.join(a.split()), i))
    return out


def vary_case(rng, s):
    out = []
    mode = rng.choice(['same', 'lower', 'upper', 'mixed'])
    for c in s:
        alt = c
        if mode == 'lower':
            alt = c.lower()
        elif mode == 'upper':
            alt = c.upper()
        elif mode == 'mixed' and rng.random() < 0.5:
            alt = c.swapcase()
        # only keep an alternative that lower-cases to the same text
        if alt.lower() != c.lower():
            alt = c
        out.append(alt)
    return ''.join(out)


def gen_ws(rng, mn=1, mx=3):
    return ''.join(rng.choice(SPACES) for _ in range(rng.randint(mn, mx)))


def vary_name(rng, name):
    """A variant of a known name: any case, any white space between words and around parentheses."""
    ws = words_of(name)
    out = ''
    for i, w in enumerate(ws):
        if i > 0:
            prev = ws[i - 1]
            if w in '()' or prev in '()':
                out += gen_ws(rng, 0, 2)
            else:
                out += gen_ws(rng, 1, 3)
        out += vary_case(rng, w)
    return out


def occurrences(T, textwords):
    """All (start, end_exclusive, entry) occurrences of the names of T in the lower-cased word list."""
    occ = []
    names = [(tuple(lw(n)), i) for n, i in names_of(T)]
    n = len(textwords)
    for nw, i in names:
        k = len(nw)
        if not k:
            continue
        for s in range(0, n - k + 1):
            if tuple(textwords[s:s + k]) == nw:
                occ.append((s, s + k, i))
    return occ


# ---------------------------------------------------------------- expression trees (surface)

def gen_surface(rng, depth=3, maxar=3):
    """
    A surface syntax tree: ('sym', operand) | ('with', operand, operand) | ('and'|'or', [children])
    | ('par', child). Operands are filled in by the caller.
    """
    r = rng.random()
    if depth <= 0 or r < 0.35:
        if rng.random() < 0.2:
            return ('with', None, None)
        return ('sym', None)
    if r < 0.5:
        return ('par', gen_surface(rng, depth - 1, maxar))
    op = 'and' if rng.random() < 0.5 else 'or'
    n = rng.randint(2, maxar)
    return (op, [gen_surface(rng, depth - 1, maxar) for _ in range(n)])


# ---------------------------------------------------------------- abstract trees (encoded form)

ATOM_KEYS = ['mit', 'gpl', 'bsd', 'GPL', 'a b', 'x', 'cp', 'lgpl 2.1', 'a', 'b', 'c', 'd']
# keys that are prefixes of each other, continued by characters sorting before / after ' WITH ' and 'W':
# the order of symbols must follow the order of their renderings whatever the kind of symbol
ORDER_KEYS = ['GPL', 'GPL 2', 'GPL 3', 'GPL+', 'GPL-2', 'GPL X', 'GPL W', 'GPL.1', 'a', 'a b', 'a-b', 'a+', 'a WITH b', 'a Z']


COLLIDE_KEYS = ['a', 'b', 'c', 'a WITH b', 'b WITH c', 'a AND b', 'mit', 'MIT']


def gen_atom(rng, keys=ATOM_KEYS, collide=False):
    from core import enc_str
    if collide and keys is ATOM_KEYS and rng.random() < 0.5:
        keys = COLLIDE_KEYS
    def sym():
        k = rng.choice(keys)
        ex = rng.random() < (0.4 if collide else 0.15)
        return [enc_str(k), 1 if ex else 0]
    if rng.random() < (0.45 if keys is COLLIDE_KEYS else 0.2):
        return [1, sym(), sym()]
    return [0, sym()]


def clash_atoms():
    """Different atoms whose renderings coincide: same key with both flags, a plain key spelled like a WITH
    pair, and WITH pairs whose keys concatenate to the same text."""
    from core import enc_str
    def sy(k, e=0):
        return [enc_str(k), e]
    return [[1, sy('a WITH b'), sy('c')], [1, sy('a'), sy('b WITH c')], [1, sy('a'), sy('b')], [0, sy('a WITH b')],
            [0, sy('a WITH b WITH c')], [0, sy('a')], [0, sy('a', 1)], [1, sy('a', 1), sy('b')], [0, sy('c')], [0, sy('mit')]]


def with_part_atoms():
    """WITH pairs next to the bare symbols they are made of: an absorption or containment test that looks inside a
    WITH pair confuses these (a WITH pair is an atom of its own)."""
    from core import enc_str
    def sy(k, e=0):
        return [enc_str(k), e]
    return [[0, sy('gpl')], [0, sy('cp')], [0, sy('mit')], [1, sy('gpl'), sy('cp')], [1, sy('cp'), sy('gpl')],
            [1, sy('gpl'), sy('mit')], [1, sy('mit'), sy('cp')]]


def gen_tree(rng, depth=3, maxar=4, keys=ATOM_KEYS, collide=False, atoms=None):
    """Random encoded expression tree; every AND/OR has two or more operands."""
    if depth <= 0 or rng.random() < 0.3:
        if atoms is not None:
            return [0, rng.choice(atoms)]
        return [0, gen_atom(rng, keys, collide)]
    tag = rng.choice([1, 2])
    n = rng.randint(2, maxar)
    return [tag, [gen_tree(rng, depth - 1, maxar, keys, collide, atoms) for _ in range(n)]]


def tree_size(d):
    if d[0] == 0:
        return 1
    return 1 + sum(tree_size(x) for x in d[1])


def shrink_tree(d, fails):
    """Greedy shrinking of an encoded tree while fails(tree) stays true."""
    changed = True
    while changed:
        changed = False
        for cand in _tree_shrinks(d):
            try:
                if fails(cand):
                    d = cand
                    changed = True
                    break
            except Exception:
                pass
    return d


def _tree_shrinks(d):
    if d[0] == 0:
        return
    for x in d[1]:
        yield x
    if len(d[1]) > 2:
        for i in range(len(d[1])):
            yield [d[0], d[1][:i] + d[1][i + 1:]]
    for i, x in enumerate(d[1]):
        for y in _tree_shrinks(x):
            yield [d[0], d[1][:i] + [y] + d[1][i + 1:]]


def shrink_list(l, fails):
    """Greedy removal of elements of a list while fails(list) stays true."""
    changed = True
    while changed:
        changed = False
        for i in range(len(l)):
            cand = l[:i] + l[i + 1:]
            try:
                if fails(cand):
                    l = cand
                    changed = True
                    break
            except Exception:
                pass
    return l


# ---------------------------------------------------------------- exhaustive token strings

TOKEN_ALPHABET = ['k', 'e', 'u', 'and', 'or', 'with', '(', ')']
TOKEN_TABLE = [('mit', [], False), ('cpe', [], True)]
TOKEN_TEXT = {'k': 'mit', 'e': 'cpe', 'u': 'zz', 'and': 'and', 'or': 'OR', 'with': 'With', '(': '(', ')': ')'}


def token_strings(maxlen, minlen=1):
    for n in range(minlen, maxlen + 1):
        for t in itertools.product(TOKEN_ALPHABET, repeat=n):
            yield t


def render_tokens(t):
    return ' '.join(TOKEN_TEXT[x] for x in t)
