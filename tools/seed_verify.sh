#!/bin/sh
# tools/seed_verify.sh <worktree> <prop> <seed-id> : confirm a sub-agent's change and store it under seeded/<seed-id>/
set -e
WT=$1; P=$2; ID=$3
D=/verif/seeded/$ID
mkdir -p $D
git -C $WT diff -- src > $D/patch.diff
cp $WT/demo_$P.py $D/demo.py
cd $WT
T1=$(PYTHONPATH=$WT/src /venv/bin/python -m pytest -q -p no:cacheprovider 2>&1 | tail -1)
set +e
PYTHONPATH=$WT/src timeout 600 /venv/bin/python demo_$P.py > $D/demo_with_change.out 2>&1; R1=$?
# the stash is shared by all worktrees of a repository: undo and re-apply the saved diff instead
git checkout -q -- src
PYTHONPATH=$WT/src timeout 600 /venv/bin/python demo_$P.py > $D/demo_without_change.out 2>&1; R0=$?
git apply $D/patch.diff
set -e
echo "tests_with_change: $T1"; echo "demo_with_change_exit=$R1 demo_without_change_exit=$R0"
echo "$T1" > $D/tests_with_change.out
