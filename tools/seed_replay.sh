#!/bin/sh
# tools/seed_replay.sh <seed-id> <prop> : apply the seeded change, run the quick check, replay the reported input
# with the change applied (expected FAILS) and again after undoing it (expected HOLDS)
ID=$1; P=$2
cd /repo && git apply /verif/seeded/$ID/patch.diff || exit 2
cd /verif
F=$(./check $P quick 2>&1 | grep -E "^VIOLATION" | head -1 | sed 's/.*replay=\([^ ]*\).*/\1/')
if [ -z "$F" ]; then echo "[$ID] $P: no violation reported"; git -C /repo checkout -- .; exit 1; fi
W=$(./check --replay $F 2>&1 | head -1 | cut -c1-120)
git -C /repo checkout -- .
C=$(./check --replay $F 2>&1 | head -1 | cut -c1-60)
echo "[$ID] $P $(basename $F): with change: $W | clean: $C"
