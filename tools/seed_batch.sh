#!/bin/sh
# tools/seed_batch.sh "<wt> <prop> <id>" ... : verify and run each new seeded change against its own property
for spec in "$@"; do
  set -- $spec
  V=$(tools/seed_verify.sh /tmp/wt/$1 $2 $3 | tail -2 | tr '\n' ' ')
  R=$(tools/seed_run.sh $3 $2 2>&1 | grep -E "VIOLATION|PASS" | head -1 | cut -c1-110)
  echo "$3: $V | $R"
done
git -C /repo status --short
