#!/usr/bin/env python3
"""Regenerates MANIFEST.json from the table below (kept valid at all times)."""
import json
import os

VERIF = os.path.dirname(os.path.dirname(os.path.abspath(__file__)))
PROPS = [json.loads(l)['id'] for l in open(os.path.join(VERIF, 'properties.jsonl'))]

BASE_NOTE = ('Trusted: Coq 8.16.1 kernel (vm_compute, no native_compute), no axioms (Print Assumptions under every '
             'theorem of coq/Props/%s.v), the hand-written model coq/Model/*.v whose agreement with /repo is measured '
             'by the correspondence check on every run (extraction by ExtrOcamlBasic only), the oracle facts about '
             'the running Python\'s Unicode tables (checked on all code points), the harness. ')

# property -> (technique, level text, extra note, design ref)
CLAIMED = {
    'C13': ('Coq proof (value laws of the symbol model: equality = fields, hash consistency, strict total order '
            'extending the string order, key acceptance rule) + exhaustive-pairs correspondence model vs implementation',
            'Theorems over all symbols and key strings of the model; the model is tied to the code by comparing ==, <, '
            'str, hash, copy and LicenseSymbol(key) on all ordered pairs of a 78-symbol pool of the three kinds and a '
            'stream of key strings (exhaustive short strings + random Unicode).',
            'Flags are modelled as booleans; wrapped user objects are values with the same fields.', 'DESIGN.md section 4 C13'),
    'C06': ('Coq proof (simplify preserves eval for every valuation of atoms and adds no atom) + exhaustive small trees and '
            'random trees: structural correspondence model vs boolean.py simplify, truth-table oracle on the implementation',
            'Theorem for all expression trees and all valuations over the model of DualBase.simplify (flatten, idempotence, '
            'absorption with index deletion, stable sort); tied to the code by comparing the simplified structure on '
            'exhaustive and random trees.',
            'NOT / TRUE / FALSE branches of boolean.py are unreachable from license expressions and not modelled.', 'DESIGN.md section 4 C06'),
    'C07': ('Coq proof, full statement on the model: simplify is idempotent; simplify e = simplify e\' for every sequence of the rewrites '
            '(operands reordered / repeated, regrouped by associativity, joined by an absorbed operand) applied at any node; the result is '
            'canonical (>= 2 operands, none of the own kind, no two equal, strictly sorted, recursively) + rewrite-sequence generator '
            'against model and implementation',
            'Proofs/Normal.v: on canonical forms == is identity and the sort comparison a strict total order (mutual induction on size); '
            'what absorption leaves = the operands no other operand absorbs (loop invariant; absorption transitive and antisymmetric); the '
            'result of one node depends only on the members of its flattened operands; normal forms are fixed points.',
            'NOT / TRUE / FALSE branches of boolean.py are unreachable from license expressions and not modelled.', 'DESIGN.md section 4 C07'),
    'C08': ('Coq proof, full statement on the model: is_equivalent reflexive, symmetric, transitive, sound for every valuation, True for '
            'every pair related by the rewrites of C07; contains reflexive, invariant under equivalent arguments, WITH contains its parts, '
            'contained licenses occur in the container + pair correspondence on three Licensing instances',
            'Theorems over all pairs / triples of expression trees of the model; rewrites_equivalent from the rewrite invariance of simplify.',
            'Instance independence is structural in the model (the functions take no table) and is checked on three instances.', 'DESIGN.md section 4 C08'),
    'C02': ('Coq proof: parser completeness for the grammar (every nesting depth, arity, redundant parentheses), greedy WITH grouping, '
            'and the text level relative to a segmentation of the text (blocks spelling stored names, maximal runs of other words, every '
            'reported match inside a name block): one token per block, unknown runs become one license keyed by their words, the parse '
            'is the tree of the derivation + exhaustive token strings and grammar-generated strings, independent reference parser',
            'Theorems bparse_complete, with_grouping_complete, tokenize_segments (Proofs/Segments.v: survival of dominant matches with '
            'duplicates, coverage, position-ordered lists with equal members are equal), parse_blocks (Proofs/Blocks.v) and, for tables '
            'without operator words, layout_parses_derivation (Proofs/Layout.v): the word pieces cut into one group per item of a derivation '
            'parse to its tree, with no premise about the reported matches.',
            'For tables whose names hold operator words the segmentation premise is the no-crossing proviso of the property; that a given '
            'layout satisfies it is shown per text (examples in Props/C02.v) and exercised by the generators.', 'DESIGN.md section 4 C02'),
    'C03': ('Coq proof, full statement on the model: no foreign exception from parse / validate for every table, flags and string; '
            'accepted token sequences are well formed (allowed adjacencies, balanced parentheses, non-empty); stray WITH refused; '
            'blank -> None; a parse error carries no token or points at a run of consecutive words of the text (position = start of '
            'the first, token string made of them) + exhaustive token strings x 8 flag combinations, malformed stream, position oracle',
            'Theorems over the whole parse model (tokenizers, unknown merge, WITH grouping, strict checks, boolean parser); the '
            'location clause (parse_error_located, Proofs/Located.v) reuses the accounting relation of C01, which carries positions '
            'and strings, and a case analysis of where the boolean parser takes the token of its errors from.',
            'A single dangling operator at the end is outside the claim.', 'DESIGN.md section 4 C03'),
    'C12': ('Coq proof, full statement on the model: strict accepts iff non-strict accepts and roles are right, equal results; otherwise '
            'error 101/102 at the first offending license; non-strict parse() of two tables with the same keys and aliases gives the '
            'same outcome up to the flags of the symbols + exhaustive token strings against all four flag assignments',
            'Theorems parse_strict_iff / parse_strict_error / parse_flag_free over the parse model for every table and string; the '
            'last one by parametricity of matcher, overlap filter, piece walk, unknown-run merger, WITH grouping, replacement and '
            'boolean parser in the values they carry (Proofs/Flags.v).',
            '', 'DESIGN.md section 4 C12'),
    'C16': ('Coq proof (matcher as a map under add / re-add; finalisation changes no look-up and refuses additions; Aho-Corasick '
            'correctness: iter reports exactly the occurrences of stored word sequences in the word pieces of the text, with '
            'positions) + exhaustive name sets x texts and operation sequences against the model, brute-force occurrence oracle',
            'Theorems for every sequence of add() calls, every well-formed trie and every text; the automaton is modelled on '
            'paths with the failure link computed as make_automaton computes it (from the parent link), proved equal to the '
            'longest proper suffix; scan_exact is soundness and completeness at once.',
            'Names without any word and include_space=True are outside; stored values are truthy.', 'DESIGN.md section 4 C16'),
    'C17': ('Coq proof, full statement: tokens of Trie.tokenize in text order, pairwise disjoint, on piece boundaries, exact slices, '
            'every non-blank piece of the text in exactly one token, every kept match emitted; selection rules of '
            'filter_overlapping (general survival lemma; leftmost longest, isolated, pair rule; uncovered words reappear '
            'unmatched) + exhaustive interval configurations, overlap chains and the coverage oracle on the implementation',
            'Theorems for every well-formed trie (build_trie gives one), every text and every list of well-formed tokens, over '
            'the zipper transcription of the nested index loops with deletion and the piece walk of Trie.tokenize.',
            'Token predicates and the sort key are regenerated from the source (Tie/Preds.v).', 'DESIGN.md section 4 C17'),
    'C09': ('Coq proof (dedup total, no repeated rendering among siblings at any depth, idempotent, truth-table preserving for '
            'valuations that respect renderings; refutation witness for the rendering-collision finding; relation refused with '
            'TypeError) + reference-implementation oracle and correspondence on trees with duplicates and on combine_expressions',
            'Theorems for every well-formed expression tree of the model; operand order: the renderings kept at a node are the renderings of its deduplicated operands in first-occurrence order (uniq_order, dedup_node_order), every rendering among the operands survives and none twice, combine returns a sole input as it is and keeps duplicates when asked (Proofs/DedupKeeps.v); also checked '
            'by the reference deduplication in the oracle and by the structural correspondence.',
            'Known finding D10 (different operands with equal renderings) is listed in known_findings.txt.', 'DESIGN.md section 4 C09'),
    'C10': ('Coq proof (listings are projections of the literals: all occurrences in order, each once under uniqueness, WITH '
            'pair as license then exception, primary = first, unknown listings = filtered listings) + generated texts whose '
            'license sequence is known by construction, every switch combination, string and parsed arguments',
            'Theorems over the model of the listing functions for every expression and table; that the literals are in text '
            'order is C01 / C02.', '', 'DESIGN.md section 4 C10'),
    'C11': ('Coq proof (parse(validate=True) raises iff the unknown listing is non-empty and names it; validate() has no error iff '
            'parse(validate=True) with the same strictness succeeds; normalized = rendering then, absent otherwise; invalid '
            'symbols = unknown keys) + exhaustive token strings and generated strings on both strictness settings',
            'Theorems over the models of the three entry points (validate re-parses the text non-strictly, as the code does) '
            'for every table, string and strictness; error message texts are checked by the oracle.',
            'Blank strings are outside.', 'DESIGN.md section 4 C11'),
    'C14': ('Coq proof (validate_symbols / the constructor report an error iff the table is ambiguous by the order-free rule, '
            'although the code uses an order-sensitive last-writer-wins dictionary; in an accepted table every stored word sequence has one '
            'owner, whatever the names hold; on aliases without parentheses the alias normalisation is lower / strip / split / join) + random '
            'tables in every entry order and in three representations, and an own stream of parenthesised aliases',
            'Theorem for every table of valid symbols; representation independence is structural in the model and decided by '
            'the oracle comparing all queries across the three representations.',
            'Non-text aliases are outside this property; aliases with parentheses are outside its quantifier (exercised by an own stream).', 'DESIGN.md section 4 C14'),
    'C05': ('Coq proof: over a table Licensing() accepted (or any table with valid keys and unambiguous names) with no operator word in a name, whatever text parses to e, the default '
            'rendering of e (plain or readable) is tokenized and parsed back to e itself by the model of the whole pipeline '
            '(parse_render_parse), likewise every well-formed expression made of the licenses of e (simplify / dedup / combine results); '
            'the token sequence of the rendering parses back whatever strings / positions it carries; the rendered string is the '
            'concatenation of fixed operator / parenthesis texts and the template applied to each license; producer results rendered '
            'and re-parsed on the implementation, also over wrapped user objects',
            'Theorems for every text, every well-formed expression tree, every table without operator words and every template '
            '(accepted_table_round_trip, accepted_names_unambiguous, mk_key_idem, plain_table_round_trip, parse_render_parse, render_parse_roundtrip, parse_renderable, table_ok_from_conditions, bparse_wf, '
            'bparse_kinds, kinds_to_or, render_is_items, resplit, render_words). The three conditions on the table are discharged for the '
            'example table; the round trip is also decided on the implementation by the oracle.',
            'Finite oracle facts about white space and lower-casing (operator letters; white space is fixed by lower-casing, which never yields nothing) are premises (checked on the interpreter).',
            'DESIGN.md section 4 C05'),
    'C19': ('Coq proof (invariant over operation sequences: answers of any history equal those of the system that never caches a '
            'tokenizer; the store of expression objects is append-only; parse of an expression returns the same object) + random '
            'histories on real shared objects against the model and against fresh instances',
            'Theorems for every sequence of the modelled calls on a world of instances with lazily cached tokenizers and shared '
            'expression objects; tied to the code by running the same histories on real shared objects (observations and final '
            'expression store compared) and re-checking every live expression after every call. The inventory of writes to objects '
            'not created by the running call (gen/Writes.v, regenerated on every run) is proved confined to the tokenizer builders '
            'and the publication (Tie/Writes.v): no query writes to its Licensing, its arguments, a module-level name or a class.',
            'boolean.py class attributes rewritten by each Licensing() are not modelled (never read by the modelled functions).', 'DESIGN.md section 4 C19'),
    'C20': ('Coq proof of an interleaving model (partial: statement granularity, not the Python runtime): for the statement order '
            'generated from the source on every run, every schedule of any number of threads gives every returned call a '
            'complete tokenizer; refutation witness for publish-before-fill; + deterministic sys.settrace scheduler enumerating '
            'all single-preemption schedules on the real code with trace validation against the model',
            'Invariant proof over all schedules of any abstract program meeting the decidable criterion safe_order; the program of get_advanced_tokenizer is regenerated from '
            'the AST on every run and Tie/ThreadProg.v re-proves safe_order for it; each real execution is replayed on the '
            'model (traces_validated_against_impl). The inventory of statements that can write to an object the call did not create '
            '(gen/Writes.v, regenerated from both source files) is proved confined to the tokenizer builders and the publication (Tie/Writes.v).',
            'Partial: bytecode-level switches inside a line, the GIL / free-threaded builds and C-level atomicity are not modelled.', 'DESIGN.md section 4 C20'),
    'C01': ('Coq proof, full statement on the model for both tokenizers: when parse succeeds, the literals of the expression are the '
            'license tokens in order, and the non-blank pieces of the text are the in-order concatenation of one group per token - an '
            'operator for its keyword, a known license for the words of its key or alias (ignoring case), an unknown license for the '
            'words of its key verbatim, a WITH pair for its three parts + word-accounting oracle and token-triple correspondence',
            'Theorems parse_accounted / parse_accounted_simple (Proofs/Account.v) on top of scan_exact, the coverage theorem of the '
            'piece walk, the unknown-run merger and greedy WITH grouping; bparse_literals for the second sentence.',
            'Premise: U+0020 is white space for the oracle (checked on the interpreter tables).', 'DESIGN.md section 4 C01'),
    'C04': ('Coq proof: a text that spells one stored name (any case, any white space, also around parentheses) is tokenized to exactly '
            'one token over its whole span and parsed to the owning symbol, strict or not (recognise_alone, recognise_name); over a table '
            'Licensing() accepted (names with operator words or parentheses included) the owner is the entry that declares the name (accepted_name_resolves); '
            'look-ups depend only on lower-cased words + every name of generated tables in case / white-space variants and 12 operator contexts',
            'Theorems over the matcher and parser model for every table and text. The operator contexts (a name next to operators and '
            'other names) are decided by the oracle (expected tree built from the intended symbols) and the correspondence.',
            'Names inside longer expressions are covered by C02 / C17 theorems plus the oracle.', 'DESIGN.md section 4 C04'),
    'C15': ('Kernel computation on the index regenerated from the JSON on every run (both tables build, known keys, deprecated / '
            'SPDX-less unknown; no name holds an operator word; every name has words) + Coq proof for any index (builds iff unambiguous; every '
            'name of a built table, in any case and spacing, parses to its entry, renders as the key and validates; instantiated for every name '
            'of both shipped tables) + exhaustive sweep of all bundled names and of both Licensings of synthetic indexes against the model',
            'vm_compute facts in Tie/Index.v over gen/Index.v (2310 entries), the theorem over accepted tables (Proofs/Accepted.v: '
            'accepted_name_resolves) instantiated in Tie/IndexNames.v, and general theorems from C04 / C14; recognition of every name in '
            'three letter cases, rendering, validation and flags are also swept on the real bundled Licensings.',
            'The shipped index is ASCII; the ASCII part of the oracle is used for the computation.', 'DESIGN.md section 4 C15'),
    'C18': ('Coq proof, full statement on the model: for an alias-free table of single-word non-operator keys and a text without two '
            'adjacent plain words, Licensing.tokenize gives the same token list or the same error with either tokenizer, hence the same '
            'parse outcome, strict or not + exhaustive token strings under both tokenizers, two layouts, shared instance',
            'Theorem parse_agrees via: single-word scan = per-word look-up, all such matches survive the overlap filter, the piece walk '
            'emits one token per word, isolated unknown words become the same symbol, blanks drop out; oracle facts about the keyword '
            'characters are premises checked on the interpreter\'s tables.',
            'Tied to the code by the exhaustive comparison of both tokenizers of the implementation with the model.', 'DESIGN.md section 4 C18'),
}

NOT_YET = 'check under construction in this session; see DESIGN.md section 4 for the planned theorem'


def main():
    checks = []
    for p in PROPS:
        if p not in CLAIMED:
            continue
        tech, text, note, ref = CLAIMED[p]
        checks.append({
            'property_id': p,
            'quick_cmd': './check %s quick' % p,
            'thorough_cmd': './check %s thorough' % p,
            'evidence_file': '/verif/evidence/%s.json' % p,
            'replay_cmd_template': './check --replay {path}',
            'engine': 'coq-model',
            'level_claimed': {'category': 'proof', 'text': text, 'design_ref': ref},
            'level_note': (BASE_NOTE % p) + note,
            'technique': tech,
        })
    m = {
        'version': 1,
        'setup_cmd': 'make -C /verif setup',
        'hooks': {
            'guard': 'LICENSE_EXPRESSION_VERIF',
            'enable': 'no source hook is needed: checks drive the public API (and sys.settrace for C20) from /repo/src via PYTHONPATH',
            'baseline_off_cmd': 'cd /repo && /venv/bin/python -m pytest -ra -q -p no:cacheprovider --timeout=900 --continue-on-collection-errors',
            'source_commits': [],
            'add_only': True,
        },
        'engines': [{
            'name': 'coq-model',
            'path': '/verif/coq',
            'serves_properties': sorted(CLAIMED),
            'kind_free_text': 'Coq 8.16.1 development (model, proofs, property theorems), extracted OCaml model + '
                              'driver, Python correspondence harness with spec oracles',
        }],
        'checks': checks,
        'not_applicable': [{'property_id': p, 'reason': NOT_YET} for p in PROPS if p not in CLAIMED],
        'notes': 'Machine-checked proof in Coq 8.16.1 over a hand-written executable model, tied to /repo by a '
                 'correspondence check (extracted OCaml model vs implementation) and by fragments regenerated from the '
                 'source on every run. Repaired defects and known findings: known_findings.txt.',
    }
    with open(os.path.join(VERIF, 'MANIFEST.json'), 'w') as f:
        json.dump(m, f, indent=1)


if __name__ == '__main__':
    main()
