#!/bin/sh
# tools/harmless_run.sh <worktree> <name> : store a behaviour-preserving refactoring under harmless/<name>/, apply it to /repo,
# run every quick check (all must PASS), undo it
WT=$1; N=$2
D=/verif/harmless/$N
mkdir -p $D
git -C $WT diff -- src > $D/patch.diff
cd /repo && git apply $D/patch.diff || exit 2
cd /verif
: > $D/result.txt
for i in 01 02 03 04 05 06 07 08 09 10 11 12 13 14 15 16 17 18 19 20; do
  ./check C$i quick 2>&1 | grep -E "^(PASS|VIOLATION|KNOWN-FINDING)" >> $D/result.txt
done
git -C /repo checkout -- .
grep -c "^PASS" $D/result.txt; grep "^VIOLATION" $D/result.txt
