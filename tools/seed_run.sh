#!/bin/sh
# tools/seed_run.sh <seed-id> <prop>... : apply the seeded change to /repo, run the given quick checks, undo
ID=$1; shift
cd /repo && git apply /verif/seeded/$ID/patch.diff || exit 2
cd /verif
for P in "$@"; do
  ./check $P quick 2>&1 | grep -E "^(PASS|VIOLATION|KNOWN)" | cut -c1-200 | sed "s/^/[$ID] /"
done
git -C /repo checkout -- . ; git -C /repo status --short
