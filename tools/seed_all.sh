#!/bin/sh
# tools/seed_all.sh : every seeded change against the quick check of its own property; prints one line per seed
cd /verif
for d in seeded/*/; do
  ID=$(basename $d); P=$(echo $ID | cut -d- -f1)
  R=$(tools/seed_run.sh $ID $P 2>&1 | grep -E "VIOLATION|PASS" | head -1 | sed 's/replay=.*replays\///' | cut -c1-90)
  echo "$R"
done
git -C /repo status --short
