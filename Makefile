# Build of the verification framework: Coq development (full .vo), extracted model, OCaml driver.
# Everything is rebuilt from files on disk; no network.
COQDIR := coq
BUILD  := build
JOBS   ?= 16

.PHONY: all setup coq driver clean gen

all: setup
setup: coq driver

$(COQDIR)/Makefile.coq: $(COQDIR)/_CoqProject
	cd $(COQDIR) && coq_makefile -f _CoqProject -o Makefile.coq

coq: $(COQDIR)/Makefile.coq
	cd $(COQDIR) && timeout 3000 $(MAKE) -f Makefile.coq -j$(JOBS)

$(BUILD)/model.ml: coq $(COQDIR)/Extract.v
	mkdir -p $(BUILD)
	cd $(BUILD) && timeout 300 coqc -Q ../$(COQDIR)/Model Model -o Extract.vo ../$(COQDIR)/Extract.v

$(BUILD)/driver: $(BUILD)/model.ml ocaml/driver.ml
	cp ocaml/driver.ml $(BUILD)/driver.ml
	cd $(BUILD) && timeout 300 ocamlfind ocamlopt -w -a model.mli model.ml driver.ml -o driver

driver: $(BUILD)/driver

clean:
	rm -rf $(BUILD)
	cd $(COQDIR) && [ -f Makefile.coq ] && $(MAKE) -f Makefile.coq clean || true
	rm -f $(COQDIR)/Makefile.coq $(COQDIR)/Makefile.coq.conf $(COQDIR)/.*.aux $(COQDIR)/*/.*.aux
