# Build of the verification framework: Coq development (full .vo), extracted model, OCaml driver.
# Everything is rebuilt from files on disk; no network.
COQDIR := coq
BUILD  := build
JOBS   ?= 16

.PHONY: all setup coq model driver clean gen

all: setup
# the model and the driver first (they do not depend on proofs or tie files), then everything
setup: driver coq

gen:
	PYTHONPATH=/repo/src /venv/bin/python harness/translators.py >/dev/null || true

$(COQDIR)/Makefile.coq: $(COQDIR)/_CoqProject gen
	cd $(COQDIR) && coq_makefile -f _CoqProject -o Makefile.coq

model: $(COQDIR)/Makefile.coq
	cd $(COQDIR) && timeout 3000 $(MAKE) -f Makefile.coq -j$(JOBS) Model/Run.vo Model/Threads.vo

# -k: a broken proof or tie file must not stop unrelated files from being checked
coq: $(COQDIR)/Makefile.coq
	cd $(COQDIR) && timeout 3000 $(MAKE) -k -f Makefile.coq -j$(JOBS)

$(BUILD)/model.ml: model $(COQDIR)/Extract.v
	mkdir -p $(BUILD)
	cd $(BUILD) && timeout 300 coqc -Q ../$(COQDIR)/Model Model -o Extract.vo ../$(COQDIR)/Extract.v

$(BUILD)/driver: $(BUILD)/model.ml ocaml/driver.ml
	cp ocaml/driver.ml $(BUILD)/driver.ml
	cd $(BUILD) && timeout 300 ocamlfind ocamlopt -w -a model.mli model.ml driver.ml -o driver

driver: $(BUILD)/driver

clean:
	rm -rf $(BUILD)
	cd $(COQDIR) && [ -f Makefile.coq ] && $(MAKE) -f Makefile.coq clean || true
	rm -f $(COQDIR)/Makefile.coq $(COQDIR)/Makefile.coq.conf $(COQDIR)/.*.aux $(COQDIR)/*/.*.aux $(COQDIR)/gen/*.v
